//! C15: concurrent use equals sequential use. proptest generates thread
//! programs; each is executed by a fresh `mvexec threads` child process so
//! that the first calls of all threads race to install the CPU-specific
//! implementation.

use crate::ctx::Ctx;
use crate::journal;
use crate::report::{show, Frag};
use crate::subgen;
use mvcore::threads::{Program, TOp};
use proptest::prelude::*;
use serde_json::{json, Value};
use std::cell::RefCell;
use std::process::Command;

fn top(nhays: u8, flavor: u8) -> BoxedStrategy<TOp> {
    let b = prop::sample::select(vec![b'a', b'b', b'z', 0u8, 0xFF, b' ']);
    let h = 0u8..nhays;
    if flavor == 2 {
        // a storm of one-shot free-function calls on short haystacks, every call with its own needle length
        return (h.clone(), any::<u8>(), any::<u8>(), prop::sample::select(vec![0u8, 0, 1, 2])).prop_map(|(h, n, c, r)| TOp::OneShot(h, n, c & 0xFE, r)).boxed();
    }
    if flavor == 3 {
        // the same storm on haystacks of 64 bytes and more (the one-shot functions build a searcher per call there)
        return (h.clone(), any::<u8>(), any::<u8>(), prop::sample::select(vec![0u8, 1, 1, 2])).prop_map(|(h, n, c, r)| TOp::OneShot(h, n, c | 1, r)).boxed();
    }
    if flavor == 7 {
        // first use of the shared finder on a short prefix (the Rabin-Karp zone of the meta searcher) racing
        // with clones of it (find_iter clones the searcher)
        return prop_oneof![
            3 => (h.clone(), 0u8..24, prop::sample::select(vec![0u8, 0, 2])).prop_map(|(h, c, m)| TOp::FindCut(h, c, m)),
            2 => h.clone().prop_map(TOp::FindIter),
        ]
        .boxed();
    }
    if flavor == 5 {
        // a storm on the SHARED finders, which no thread has used before the barrier: first use, clones
        // (find_iter) and the short-haystack paths race with each other
        return prop_oneof![
            2 => h.clone().prop_map(TOp::Find),
            3 => h.clone().prop_map(TOp::Rfind),
            2 => h.clone().prop_map(TOp::FindIter),
            3 => (h.clone(), any::<u8>(), 0u8..3).prop_map(|(h, c, m)| TOp::FindCut(h, c, m)),
        ]
        .boxed();
    }
    prop_oneof![
        1 => (h.clone(), any::<u8>(), 0u8..3).prop_map(|(h, c, m)| TOp::FindCut(h, c, m)),
        3 => (b.clone(), h.clone()).prop_map(|(a, h)| TOp::Memchr(a, h)),
        2 => (b.clone(), h.clone()).prop_map(|(a, h)| TOp::Memrchr(a, h)),
        2 => (b.clone(), b.clone(), h.clone()).prop_map(|(a, c, h)| TOp::Memchr2(a, c, h)),
        2 => (b.clone(), b.clone(), h.clone()).prop_map(|(a, c, h)| TOp::Memrchr2(a, c, h)),
        2 => (b.clone(), b.clone(), b.clone(), h.clone()).prop_map(|(a, c, d, h)| TOp::Memchr3(a, c, d, h)),
        2 => (b.clone(), b.clone(), b.clone(), h.clone()).prop_map(|(a, c, d, h)| TOp::Memrchr3(a, c, d, h)),
        2 => (b.clone(), h.clone()).prop_map(|(a, h)| TOp::Count(a, h)),
        3 => h.clone().prop_map(TOp::Find),
        2 => h.clone().prop_map(TOp::Rfind),
        2 => h.clone().prop_map(TOp::FindIter),
        2 => (b.clone(), h.clone(), 0u8..4).prop_map(|(a, h, k)| TOp::HandOff(a, h, k)),
        5 => (h.clone(), any::<u8>(), any::<u8>(), 0u8..3).prop_map(|(h, n, c, r)| TOp::OneShot(h, n, c, r)),
    ]
    .boxed()
}

pub fn program(max_threads: usize) -> impl Strategy<Value = Program> {
    program_flavors(max_threads, vec![0, 1, 2, 3, 4, 5, 6, 7])
}

pub fn program_flavors(max_threads: usize, flavors: Vec<u8>) -> impl Strategy<Value = Program> {
    (
        subgen::needle_spec(),
        prop::collection::vec((prop::collection::vec(subgen::piece(), 1..=6), any::<u64>()), 2..=4),
        2usize..=max_threads,
        prop::sample::select(flavors),
        prop::sample::select(vec![1u32, 1, 20, 400]),
    )
        .prop_flat_map(|(spec, hs, nthreads, flavor, reps)| {
            let needle = subgen::build_needle(&spec);
            let hays: Vec<Vec<u8>> = hs
                .iter()
                .map(|(pieces, seed)| {
                    let mut h = subgen::build_haystack(&needle, pieces, 600);
                    // sprinkle the byte needles used by the thread ops
                    let mut x = *seed | 1;
                    for _ in 0..(h.len() / 9 + 1) {
                        x ^= x << 13;
                        x ^= x >> 7;
                        x ^= x << 17;
                        if !h.is_empty() {
                            let p = (x >> 16) as usize % h.len();
                            h[p] = [b'a', b'b', b'z', 0u8, 0xFF, b' '][(x >> 8) as usize % 6];
                        }
                    }
                    h
                })
                .collect();
            let nh = hays.len() as u8;
            (Just(needle), Just(hays), prop::collection::vec(prop::collection::vec(top(nh, flavor), 1..=6), nthreads..=nthreads), Just(flavor == 1), Just(reps))
        })
        .prop_map(|(needle, hays, mut threads, same_first, reps)| {
            if same_first {
                // all threads start with the same dispatched routine
                let first = threads[0][0].clone();
                for t in threads.iter_mut() {
                    t[0] = first.clone();
                }
            }
            // rounds: the whole program is repeated with FRESH shared finders (first-use races exist once per finder)
            let rounds = if reps > 1 { 1 } else { [1u32, 6, 24][threads.len() % 3] };
            Program { needle, hays, threads, reps, rounds }
        })
}

fn same_first_routine(p: &Program) -> bool {
    let kind = |op: &TOp| std::mem::discriminant(op);
    let mut n = 0;
    for i in 0..p.threads.len() {
        for j in i + 1..p.threads.len() {
            if kind(&p.threads[i][0]) == kind(&p.threads[j][0]) && !matches!(p.threads[i][0], TOp::Find(_) | TOp::Rfind(_) | TOp::FindIter(_) | TOp::OneShot(..) | TOp::FindCut(..)) {
                n += 1;
            }
        }
    }
    n > 0
}

/// two different threads issue short-haystack one-shot `memmem::find` calls with needles of different lengths
fn oneshot_mix(p: &Program) -> bool {
    if p.needle.is_empty() {
        return false;
    }
    let lens: Vec<Vec<usize>> = p
        .threads
        .iter()
        .map(|t| t.iter().filter_map(|o| match o { TOp::OneShot(_, n, c, r) if c % 2 == 0 && r % 3 == 0 => Some(1 + (*n as usize) % p.needle.len().min(24)), _ => None }).collect())
        .collect();
    for i in 0..lens.len() {
        for j in i + 1..lens.len() {
            if lens[i].iter().any(|a| lens[j].iter().any(|b| a != b)) {
                return true;
            }
        }
    }
    false
}

/// two threads whose FIRST operation goes through the shared finders (nobody has used them before the barrier)
fn shared_first(p: &Program) -> bool {
    p.threads.iter().filter(|t| matches!(t.first(), Some(TOp::Find(_)) | Some(TOp::Rfind(_)) | Some(TOp::FindIter(_)) | Some(TOp::FindCut(..)))).count() >= 2
}

pub fn c15(ctx: &Ctx) -> Frag {
    let mut frag = ctx.frag("threads-proptest");
    let mvexec = ctx.rest.iter().position(|a| a == "--mvexec").and_then(|i| ctx.rest.get(i + 1)).cloned();
    let mvexec = match mvexec {
        Some(m) => m,
        None => {
            frag.notes.push("no --mvexec given".into());
            return frag;
        }
    };
    frag.require(&[">= 2 threads whose first operation is the same dispatched routine", ">= 2 threads in one-shot memmem::find on short haystacks with needles of different lengths", "operations repeated >= 400 times per thread", ">= 2 threads whose first operation uses the shared, so far unused finder"]);
    let cases = ctx.n(300, 6_000) as u32;
    let max_threads = if ctx.thorough { 32 } else { 16 };
    let dir = std::env::temp_dir().join(format!("mvthreads-{}-{}", std::process::id(), ctx.shard));
    std::fs::create_dir_all(&dir).ok();
    let file = dir.join("program.txt");
    struct St {
        frag: Frag,
        failed: Option<Value>,
        calls: u64,
    }
    let st = RefCell::new(St { frag, failed: None, calls: 0 });
    let mut runner = crate::ctx::runner(ctx.stream_seed("threads-proptest"), cases);
    let res = runner.run(&program(max_threads), |p| {
        let mut s = st.borrow_mut();
        let s = &mut *s;
        let text = p.encode();
        std::fs::write(&file, &text).expect("write program");
        journal::set_ctx("{\"stage\":\"threads\"}");
        let out = Command::new(&mvexec).arg("threads").arg(&file).arg(ctx.level.to_string()).output();
        let (ok, msg) = match out {
            Ok(o) => {
                let so = String::from_utf8_lossy(&o.stdout).to_string();
                if o.status.success() {
                    if let Some(n) = so.trim().strip_prefix("OK ") {
                        if s.failed.is_none() {
                            s.calls += n.parse::<u64>().unwrap_or(0);
                        }
                    }
                    (true, String::new())
                } else {
                    (false, format!("exit {:?}: {} {}", o.status.code(), so.trim(), String::from_utf8_lossy(&o.stderr).trim()))
                }
            }
            Err(e) => {
                // tooling failure: do not report as a violation
                s.frag.notes.push(format!("cannot spawn mvexec: {}", e));
                (true, String::new())
            }
        };
        if s.failed.is_none() {
            s.frag.evaluations += 1;
            let mut nt = same_first_routine(&p);
            if oneshot_mix(&p) {
                s.frag.class(">= 2 threads in one-shot memmem::find on short haystacks with needles of different lengths");
                if !nt {
                    s.frag.nontrivial_hashes.insert(mvcore::oracle::fnv(&[text.as_bytes()]));
                }
            }
            if shared_first(&p) {
                s.frag.class(">= 2 threads whose first operation uses the shared, so far unused finder");
            }
            if p.reps >= 400 {
                s.frag.class("operations repeated >= 400 times per thread");
            }
            nt = nt || false;
            if nt {
                s.frag.class(">= 2 threads whose first operation is the same dispatched routine");
                s.frag.nontrivial_hashes.insert(mvcore::oracle::fnv(&[text.as_bytes()]));
            }
            s.frag.class(&format!("{} threads", match p.threads.len() { 2..=3 => "2-3", 4..=8 => "4-8", _ => ">8" }));
            if s.frag.want_sample() && p.threads.len() <= 3 && p.needle.len() < 12 {
                s.frag.sample(json!({"stage":"threads","needle":show(&p.needle),"haystacks":p.hays.iter().map(|h| show(h)).collect::<Vec<_>>(),
                    "threads":p.threads.iter().map(|t| t.iter().map(|o| format!("{:?}", o)).collect::<Vec<_>>()).collect::<Vec<_>>()}));
            }
        }
        if !ok {
            let config = ctx.config();
            s.failed = Some(json!({
                "property": ctx.prop, "kind": "threads", "config": config, "level": ctx.level, "impl": "dispatch/finder", "op": "threads",
                "program": text, "haystack_len": text.len(), "haystack_shown": format!("{} threads", p.threads.len()), "needles": show(&p.needle),
                "what": msg, "expected": "every concurrent result equals the sequential (naive) answer", "observed": msg,
                "signature": format!("{}|{}|threads|{}", ctx.prop, config, mvcore::oracle::fnv(&[text.as_bytes()])),
            }));
            return Err(TestCaseError::fail("violation"));
        }
        Ok(())
    });
    std::fs::remove_dir_all(&dir).ok();
    let mut s = st.into_inner();
    if let Err(e) = &res {
        if let Some(v) = s.failed.take() {
            s.frag.violation(v);
        } else {
            s.frag.notes.push(format!("proptest aborted without a recorded violation: {}", e.to_string().chars().take(500).collect::<String>()));
        }
    }
    s.frag.extra.insert("concurrent_calls".into(), json!(s.calls));
    s.frag
}

pub fn replay(ctx: &Ctx, v: &Value) -> Option<Value> {
    let mvexec = ctx.rest.iter().position(|a| a == "--mvexec").and_then(|i| ctx.rest.get(i + 1)).cloned()?;
    let text = v["program"].as_str()?;
    let dir = std::env::temp_dir().join(format!("mvthreads-replay-{}", std::process::id()));
    std::fs::create_dir_all(&dir).ok();
    let file = dir.join("program.txt");
    std::fs::write(&file, text).ok()?;
    let mut bad = None;
    // a schedule-dependent failure may need several attempts
    for _ in 0..200 {
        let o = Command::new(&mvexec).arg("threads").arg(&file).arg(ctx.level.to_string()).output().ok()?;
        if !o.status.success() {
            let mut v2 = v.clone();
            v2["what"] = json!(String::from_utf8_lossy(&o.stdout).trim().to_string());
            bad = Some(v2);
            break;
        }
    }
    std::fs::remove_dir_all(&dir).ok();
    bad
}

/// `mv gen-threads --out <dir> <count>`: small programs for the Miri / TSan stages.
pub fn gen_threads(ctx: &Ctx) {
    use proptest::strategy::ValueTree;
    let count: usize = ctx.rest.get(0).and_then(|s| s.parse().ok()).unwrap_or(10);
    let dir = ctx.out.clone().expect("--out dir");
    std::fs::create_dir_all(&dir).ok();
    let mut runner = crate::ctx::runner(ctx.stream_seed("gen-threads"), 1);
    let any_flavor = program(4);
    let finder_storm = program_flavors(4, vec![5]);
    let clone_storm = program_flavors(4, vec![7]);
    let oneshot_storm = program_flavors(4, vec![2, 3]);
    for i in 0..count {
        // a third of the interpreted programs are shared-finder storms, a sixth one-shot storms
        let mut p = match i % 6 {
            1 => finder_storm.new_tree(&mut runner).expect("generate").current(),
            4 => clone_storm.new_tree(&mut runner).expect("generate").current(),
            3 => oneshot_storm.new_tree(&mut runner).expect("generate").current(),
            _ => any_flavor.new_tree(&mut runner).expect("generate").current(),
        };
        p.rounds = 1;
        for h in p.hays.iter_mut() {
            h.truncate(96);
        }
        p.needle.truncate(40);
        for t in p.threads.iter_mut() {
            t.truncate(3);
        }
        std::fs::write(format!("{}/prog-{}.txt", dir, i), p.encode()).expect("write program");
    }
}
