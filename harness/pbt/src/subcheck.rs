//! Substring checks: C03 (find), C04 (rfind), C08 (iterators), C11
//! (prefilter candidates), C12 (building blocks) and the memory-safety /
//! no-panic passes of C05 and C14 over the same inputs.

use crate::arena::{Arena, Place};
use crate::bytecheck::{panic_msg, place_from_json, place_json};
use crate::ctx::Ctx;
use crate::journal;
use crate::report::{hex, show, unhex, Frag};
use crate::subgen::{self, SubCase};
use memchr::memmem;
use mvcore::oracle;
use mvcore::subs::{self, SubSet};
use proptest::prelude::*;
use serde_json::{json, Value};
use std::cell::RefCell;
use std::panic::{catch_unwind, AssertUnwindSafe};

#[derive(Clone, Copy, Debug)]
pub struct SubMode {
    pub fwd_top: bool,
    pub rev_top: bool,
    pub iters: bool,
    pub blocks: bool,
    pub prefilter: bool,
    pub judge_values: bool,
    pub judge_region: bool,
    pub judge_panics: bool,
}

pub fn mode_for(prop: &str) -> SubMode {
    let none = SubMode { fwd_top: false, rev_top: false, iters: false, blocks: false, prefilter: false, judge_values: true, judge_region: false, judge_panics: true };
    match prop {
        "C03" => SubMode { fwd_top: true, ..none },
        "C04" => SubMode { rev_top: true, ..none },
        "C08" => SubMode { iters: true, ..none },
        "C11" => SubMode { prefilter: true, ..none },
        "C12" => SubMode { blocks: true, ..none },
        "C05" => SubMode { fwd_top: true, rev_top: true, iters: true, blocks: true, prefilter: true, judge_values: false, judge_region: true, judge_panics: false },
        "C14" => SubMode { fwd_top: true, rev_top: true, iters: true, blocks: true, prefilter: true, judge_values: false, judge_region: false, judge_panics: true },
        _ => SubMode { fwd_top: true, rev_top: true, iters: true, blocks: true, prefilter: true, judge_values: true, judge_region: false, judge_panics: true },
    }
}

fn fmt_opt(o: Option<usize>) -> String {
    match o {
        None => "None".into(),
        Some(i) => format!("Some({})", i),
    }
}

fn fmt_seq(v: &[usize]) -> String {
    if v.len() <= 24 {
        format!("{:?}", v)
    } else {
        format!("{:?}...({} items)", &v[..24], v.len())
    }
}

pub fn sub_viol(ctx: &Ctx, imp: &str, op: &str, needle: &[u8], hay: &[u8], place: Place, expected: &str, observed: &str, what: &str) -> Value {
    let config = ctx.config();
    json!({
        "property": ctx.prop, "kind": "sub", "config": config, "level": ctx.level, "impl": imp, "op": op,
        "needle": hex(needle), "needles": show(needle), "haystack": hex(hay), "haystack_len": hay.len(), "needle_len": needle.len(),
        "haystack_shown": show(hay), "place": place_json(place), "expected": expected, "observed": observed, "what": what,
        "signature": format!("{}|{}|{}|{}|{}|{}", ctx.prop, config, imp, op, hex(needle), hex(hay)),
    })
}

fn region_on(hay: &[u8]) {
    #[cfg(memchr_verif)]
    memchr::verif::region_set(hay.as_ptr() as usize, hay.as_ptr() as usize + hay.len());
    let _ = hay;
}

fn region_off() {
    #[cfg(memchr_verif)]
    memchr::verif::region_clear();
}

fn region_take() -> Option<(u64, usize, usize, u8)> {
    #[cfg(memchr_verif)]
    {
        let r = memchr::verif::region_take_violation();
        if r.0 > 0 {
            return Some(r);
        }
    }
    None
}

pub fn events_take() -> u64 {
    #[cfg(memchr_verif)]
    {
        return memchr::verif::events_take();
    }
    #[allow(unreachable_code)]
    0
}

pub fn event_names(bits: u64) -> Vec<&'static str> {
    let mut v = Vec::new();
    #[cfg(memchr_verif)]
    for (i, n) in memchr::verif::ev::NAMES.iter().enumerate() {
        if bits >> i & 1 == 1 {
            v.push(*n);
        }
    }
    let _ = bits;
    v
}

#[derive(Default)]
pub struct SubStats {
    pub calls: u64,
    pub iter_items: u64,
}

/// Judge everything `mode` selects for one (needle set, placed haystack).
pub fn check_pair(ctx: &Ctx, mode: SubMode, set: &SubSet, hay: &[u8], place: Place, st: &mut SubStats) -> Option<Value> {
    let needle = set.needle;
    let r = catch_unwind(AssertUnwindSafe(|| check_pair_inner(ctx, mode, set, hay, place, st)));
    let out = match r {
        Ok(v) => v,
        Err(_) if !mode.judge_panics => None,
        Err(p) => Some(sub_viol(ctx, "?", "panic", needle, hay, place, "no panic", &panic_msg(&p), &format!("panic: {} (journal {})", panic_msg(&p), journal::ctx()))),
    };
    if mode.judge_region {
        region_off();
    }
    out
}

fn check_pair_inner(ctx: &Ctx, mode: SubMode, set: &SubSet, hay: &[u8], place: Place, st: &mut SubStats) -> Option<Value> {
    let needle = set.needle;
    let jv = mode.judge_values;
    if mode.judge_region {
        region_on(hay);
    }
    let mut bad: Option<Value> = None;
    if mode.fwd_top || mode.blocks {
        let e = if jv { oracle::naive_find(hay, needle) } else { None };
        set.fwd_all(hay, mode.fwd_top, mode.blocks, |imp, r| {
            st.calls += 1;
            if imp == subs::S_ITER_FIRST {
                return;
            }
            if jv && bad.is_none() && (r != e || r.map_or(false, |i| i + needle.len() > hay.len())) {
                bad = Some(sub_viol(ctx, subs::sub_name(imp), "find", needle, hay, place, &fmt_opt(e), &fmt_opt(r), "wrong answer"));
            }
        });
        if bad.is_some() {
            return bad;
        }
    }
    if mode.rev_top || mode.blocks {
        let e = if jv { oracle::naive_rfind(hay, needle) } else { None };
        set.rev_all(hay, mode.rev_top, mode.blocks, |imp, r| {
            st.calls += 1;
            if imp == subs::R_ITER_FIRST {
                return;
            }
            if jv && bad.is_none() && r != e {
                bad = Some(sub_viol(ctx, subs::sub_name(imp), "rfind", needle, hay, place, &fmt_opt(e), &fmt_opt(r), "wrong answer"));
            }
        });
        if bad.is_some() {
            return bad;
        }
    }
    if mode.iters {
        let ef = oracle::greedy_fwd(hay, needle);
        let er = oracle::greedy_rev(hay, needle);
        let cap = hay.len() + 8;
        macro_rules! judge_iter {
            ($name:expr, $it:expr, $exp:expr, $hint:expr) => {{
                let run = subs::drive($it, cap, $exp.len(), $hint);
                st.calls += 1;
                st.iter_items += run.items.len() as u64;
                if jv {
                    if run.runaway {
                        return Some(sub_viol(ctx, $name, "iter", needle, hay, place, &fmt_seq($exp), &fmt_seq(&run.items), "iterator does not terminate (yielded more items than the haystack has positions)"));
                    }
                    if &run.items != $exp {
                        return Some(sub_viol(ctx, $name, "iter", needle, hay, place, &fmt_seq($exp), &fmt_seq(&run.items), "iterator sequence differs from the greedy non-overlapping sequence"));
                    }
                    if run.unfused {
                        return Some(sub_viol(ctx, $name, "iter", needle, hay, place, "None forever after the end", "an item after None", "iterator yields again after returning None"));
                    }
                    if let Some((step, lo, hi, rem)) = run.hint_fail {
                        return Some(sub_viol(ctx, $name, "size_hint", needle, hay, place, &format!("lo <= {} <= hi", rem), &format!("({}, {:?}) after {} items", lo, hi, step), "size_hint does not bracket the number of matches still to come"));
                    }
                    // what the iterator "yields" is also what the consuming Iterator methods see (a specialised
                    // last / count / nth must agree with the sequence), from the start and after one item
                    if hay.len() <= 4096 {
                        for skip in 0..2usize {
                            if skip > $exp.len() {
                                break;
                            }
                            let rest = &$exp[skip.min($exp.len())..];
                            macro_rules! fresh {
                                () => {{
                                    let mut it = $it;
                                    for _ in 0..skip {
                                        let _ = it.next();
                                    }
                                    it
                                }};
                            }
                            let l = fresh!().last();
                            if l != rest.last().copied() {
                                return Some(sub_viol(ctx, $name, "iter", needle, hay, place, &fmt_opt(rest.last().copied()), &fmt_opt(l), &format!("last() after {} item(s) is not the last item the iterator yields", skip)));
                            }
                            let c = fresh!().take(cap).count();
                            if c != rest.len() {
                                return Some(sub_viol(ctx, $name, "iter", needle, hay, place, &rest.len().to_string(), &c.to_string(), &format!("count() after {} item(s) is not the number of items the iterator yields", skip)));
                            }
                            let k = rest.len() / 2;
                            let nth = fresh!().nth(k);
                            if nth != rest.get(k).copied() {
                                return Some(sub_viol(ctx, $name, "iter", needle, hay, place, &fmt_opt(rest.get(k).copied()), &fmt_opt(nth), &format!("nth({}) after {} item(s) is not that item of the sequence", k, skip)));
                            }
                        }
                    }
                }
            }};
        }
        judge_iter!("memmem::find_iter", memmem::find_iter(hay, needle), &ef, true);
        judge_iter!("Finder::find_iter", set.finder.find_iter(hay), &ef, true);
        judge_iter!("FinderBuilder(Prefilter::None)::find_iter", set.nopre.find_iter(hay), &ef, true);
        judge_iter!("memmem::rfind_iter", memmem::rfind_iter(hay, needle), &er, false);
        judge_iter!("FinderRev::rfind_iter", set.rev.rfind_iter(hay), &er, false);
        judge_iter!("Finder::find_iter().into_owned()", set.finder.find_iter(hay).into_owned(), &ef, true);
        judge_iter!("FinderRev::rfind_iter().into_owned()", set.rev.rfind_iter(hay).into_owned(), &er, false);
    }
    if mode.prefilter && needle.len() >= 2 {
        let e = oracle::naive_find(hay, needle);
        for (imp, pp) in set.pps.iter() {
            if hay.len() < pp.min_haystack_len() {
                continue;
            }
            st.calls += 1;
            let c = pp.find_prefilter(hay);
            if jv {
                if let Some(v) = judge_candidate(ctx, *imp, pp.pair(), needle, hay, place, e, c) {
                    return Some(v);
                }
            }
        }
        if let Ok(Some(pp)) = subs::make_pp(subs::S_PP_ALL, needle, None) {
            st.calls += 1;
            let c = pp.find_prefilter(hay);
            if jv {
                if let Some(v) = judge_candidate(ctx, subs::S_PP_ALL, pp.pair(), needle, hay, place, e, c) {
                    return Some(v);
                }
            }
        }
    }
    if mode.judge_region && !needle.is_empty() {
        // C05 quantifies over "safe calls whose needle differs from the construction needle": the
        // low-level searchers take the needle again at search time. Whatever they return (or whether they
        // panic) is unspecified then; what is judged are the memory accesses (guard pages next to the
        // haystack, checked vector loads).
        let mut foreign: Vec<Vec<u8>> = Vec::with_capacity(4);
        let mut f1 = hay.to_vec();
        f1.extend_from_slice(needle); // longer than the haystack, the haystack is its prefix
        foreign.push(f1);
        let mut f3 = needle.to_vec();
        *f3.last_mut().unwrap() ^= 0x20; // same length, differs in the last byte
        foreign.push(f3);
        match hay.len() % 4 {
            0 => {
                let mut f = hay.to_vec();
                f.push(needle[needle.len() - 1]); // one byte longer than the haystack
                foreign.push(f);
            }
            1 => {
                let mut f = needle.to_vec();
                f.extend_from_slice(needle); // twice the construction needle
                foreign.push(f);
            }
            2 => foreign.push(needle[..needle.len() - 1].to_vec()), // shorter (possibly empty)
            _ => {
                if hay.len() >= needle.len() {
                    foreign.push(hay[hay.len() - needle.len()..].to_vec()); // occurs at the very end of the haystack
                }
            }
        }
        for f in foreign.iter() {
            let f: &[u8] = f;
            st.calls += 4;
            let _ = catch_unwind(AssertUnwindSafe(|| set.tw.find(hay, f)));
            let _ = catch_unwind(AssertUnwindSafe(|| set.twr.rfind(hay, f)));
            let _ = catch_unwind(AssertUnwindSafe(|| set.rk.find(hay, f)));
            let _ = catch_unwind(AssertUnwindSafe(|| set.rkr.rfind(hay, f)));
            for (_, pp) in set.pps.iter() {
                if hay.len() >= pp.min_haystack_len() {
                    st.calls += 1;
                    let _ = catch_unwind(AssertUnwindSafe(|| pp.find(hay, f)));
                }
            }
        }
    }
    if mode.judge_region {
        if let Some(rv) = region_take() {
            let start = hay.as_ptr() as usize;
            let what = if rv.3 == 2 {
                format!("aligned vector load of {} bytes at haystack offset {} is misaligned", rv.2, rv.1 as i64 - start as i64)
            } else {
                format!("vector load of {} bytes at haystack offset {} reaches outside the {}-byte haystack ({} such loads)", rv.2, rv.1 as i64 - start as i64, hay.len(), rv.0)
            };
            return Some(sub_viol(ctx, "checked-vector", "checked-load", needle, hay, place, "all loads inside the haystack", &what, &what));
        }
    }
    None
}

pub fn judge_candidate(ctx: &Ctx, imp: u8, pair: (u8, u8), needle: &[u8], hay: &[u8], place: Place, e: Option<usize>, c: Option<usize>) -> Option<Value> {
    let name = subs::sub_name(imp);
    let (i1, i2) = (pair.0 as usize, pair.1 as usize);
    let opn = format!("find_prefilter[{},{}]", i1, i2);
    match (e, c) {
        (Some(e), None) => Some(sub_viol(ctx, name, &opn, needle, hay, place, &format!("Some(c) with c <= {}", e), "None", "prefilter returned None although the needle occurs")),
        (Some(e), Some(c)) if c > e => Some(sub_viol(ctx, name, &opn, needle, hay, place, &format!("Some(c) with c <= {}", e), &format!("Some({})", c), "prefilter skipped past the first occurrence")),
        (_, Some(c)) => {
            let ok1 = hay.get(c + i1).map_or(false, |&b| b == needle[i1]);
            let ok2 = hay.get(c + i2).map_or(false, |&b| b == needle[i2]);
            if !ok1 || !ok2 {
                Some(sub_viol(ctx, name, &opn, needle, hay, place, "candidate where both pair bytes are present at their offsets", &format!("Some({})", c), "candidate position does not carry the two selected needle bytes"))
            } else {
                None
            }
        }
        _ => None,
    }
}

// ---------------------------------------------------------------------------
// bounded-exhaustive enumeration over small alphabets

fn words(alpha: &[u8], max_len: usize) -> Vec<Vec<u8>> {
    let mut out = vec![vec![]];
    let mut cur: Vec<Vec<u8>> = vec![vec![]];
    for _ in 0..max_len {
        let mut next = Vec::with_capacity(cur.len() * alpha.len());
        for w in cur.iter() {
            for &c in alpha {
                let mut v = w.clone();
                v.push(c);
                next.push(v);
            }
        }
        out.extend(next.iter().cloned());
        cur = next;
    }
    out
}

/// Place `core` inside a haystack of `total` bytes at start / middle / end;
/// the rest is a foreign byte (fill 0) or the periodic continuation of the
/// core (fill 1).
fn embed(core: &[u8], total: usize, pos: u8, fill: u8, foreign: u8) -> Vec<u8> {
    if core.len() >= total {
        return core.to_vec();
    }
    let off = match pos {
        0 => 0,
        1 => (total - core.len()) / 2,
        _ => total - core.len(),
    };
    let mut h = vec![foreign; total];
    if fill == 1 && !core.is_empty() {
        for i in 0..total {
            // extend the core periodically in both directions
            let j = (i as isize - off as isize).rem_euclid(core.len() as isize) as usize;
            h[i] = core[j];
        }
    }
    h[off..off + core.len()].copy_from_slice(core);
    h
}

pub fn exhaustive(ctx: &Ctx, mode: SubMode) -> Frag {
    let mut frag = ctx.frag("sub-exhaustive");
    let (bn, bh, tn, th) = if ctx.thorough { (9, 14, 5, 9) } else { (8, 12, 5, 8) };
    // complete iterator runs over embedded haystacks are ~6x the work of a single search
    let (bn, tn) = if mode.iters { (bn - 2, tn - 1) } else { (bn, tn) };
    // the union passes of C05/C14/C09 repeat what C03/C04/C08/C12 judge individually
    let (bn, tn) = if mode.iters && mode.blocks { (bn - 1, tn - 1) } else { (bn, tn) };
    // under emulation everything is ~10x slower: shrink by one
    let (bn, bh, tn, th) = if mvcore::cfgs::cfg_emu() { (bn - 1, bh - 1, tn - 1, th - 1) } else { (bn, bh, tn, th) };
    let embed_too = mode.fwd_top || mode.rev_top || mode.iters;
    let mut ah = Arena::new(6);
    let mut an = Arena::new(4);
    let mut st = SubStats::default();
    let mut group = 0usize;
    let mut evals = 0u64;
    let mut nontrivial = 0u64;
    let mut periodic_found = 0u64;
    let mut sample_left = 3;
    'outer: for (alpha, nmax, hmax) in [(&b"ab"[..], bn, bh), (&b"abc"[..], tn, th)] {
        let needles = words(alpha, nmax);
        let hays = words(alpha, hmax);
        for needle in needles.iter() {
            group += 1;
            if !ctx.mine(group) {
                continue;
            }
            let nplace = if group % 2 == 0 { Place::End } else { Place::Start };
            let np: &[u8] = unsafe {
                let s = an.put(needle, nplace);
                std::slice::from_raw_parts(s.as_ptr(), s.len())
            };
            let set = SubSet::new(np);
            let per = oracle::period(needle);
            journal::set_ctx(&format!("{{\"stage\":\"sub-exhaustive\",\"needle\":\"{}\"}}", hex(needle)));
            for (hi, core) in hays.iter().enumerate() {
                journal::set_pos(hi as u64, 0);
                let place = match hi % 5 {
                    0 => Place::End,
                    1 => Place::Start,
                    k => Place::Mid((hi * 7 + k) % 64),
                };
                {
                    let hp = ah.put(core, place);
                    evals += 1;
                    if needle.len() >= 2 && core.len() >= needle.len() {
                        nontrivial += 1;
                        if per * 2 <= needle.len() {
                            periodic_found += 1;
                        }
                    }
                    if let Some(v) = check_pair(ctx, mode, &set, hp, place, &mut st) {
                        frag.violation(v);
                        break 'outer;
                    }
                }
                if embed_too && needle.len() >= 1 && core.len() + 3 >= hmax && core.len() >= needle.len() {
                    // the longest cores, embedded into haystacks that reach the other routes of the meta searcher
                    for total in [16usize, 64, 80] {
                        for pos in 0..3u8 {
                            for fill in 0..2u8 {
                                let h = embed(core, total, pos, fill, b'z');
                                let hp = ah.put(&h, place);
                                journal::set_pos(hi as u64, (total * 100 + pos as usize * 10 + fill as usize) as u64);
                                evals += 1;
                                nontrivial += 1;
                                if let Some(v) = check_pair(ctx, mode, &set, hp, place, &mut st) {
                                    frag.violation(v);
                                    break 'outer;
                                }
                            }
                        }
                    }
                }
            }
            if sample_left > 0 && needle.len() >= 3 {
                sample_left -= 1;
                frag.sample(json!({"stage":"sub-exhaustive","needle":show(needle),"against":format!("every word over {:?} up to length {}{}", String::from_utf8_lossy(alpha), hmax, if embed_too {", the longest ones also embedded at start/middle/end of 16/64/80-byte haystacks (foreign filler and periodic continuation)"} else {""})}));
            }
        }
    }
    frag.evaluations = evals;
    frag.nontrivial_enum = nontrivial;
    frag.class_n("periodic needle (2*period <= len) against a haystack at least as long", periodic_found);
    frag.extra.insert("searcher_calls".into(), json!(st.calls));
    frag.extra.insert("iterator_items".into(), json!(st.iter_items));
    frag.subspaces.push(json!({"what":"all (needle, haystack) pairs over small alphabets","binary":{"needle_max":bn,"haystack_max":bh},"ternary":{"needle_max":tn,"haystack_max":th},"embedded":embed_too,"exhaustive_within_bounds":true}));
    frag
}

// ---------------------------------------------------------------------------
// generated cases

pub const REQUIRED_SUB_CLASSES: [&str; 9] = [
    "needle 2..=32 found",
    "needle 33..=64 found",
    "needle >64 found",
    "periodic needle found",
    "haystack < 16",
    "16 <= haystack < 64",
    "near miss of >= half the needle before the answer",
    "needle > 32 found with fewer than 32+max pair offset bytes left (short-haystack prefilter route)",
    "false-candidate stretch (>= 50 candidates) before the first occurrence",
];

struct Gen {
    frag: Frag,
    failed: Option<Value>,
    stats: SubStats,
}

fn classify(frag: &mut Frag, c: &SubCase, first: Option<usize>) -> bool {
    let n = c.needle.len();
    let h = c.hay.len();
    let mut nt = false;
    frag.class(match n {
        0 => "needle empty",
        1 => "needle 1",
        2..=32 => "needle 2..=32",
        33..=64 => "needle 33..=64",
        _ => "needle >64",
    });
    frag.class(if h < n { "haystack < needle" } else if h < 16 { "haystack < 16" } else if h < 64 { "16 <= haystack < 64" } else { "haystack >= 64" });
    frag.class(&format!("needle kind: {}", subgen::NEEDLE_KINDS[c.spec.kind as usize]));
    if let Some(e) = first {
        if n >= 2 {
            nt = true;
            frag.class(match n {
                2..=32 => "needle 2..=32 found",
                33..=64 => "needle 33..=64 found",
                _ => "needle >64 found",
            });
            if oracle::period(&c.needle) * 2 <= n {
                frag.class("periodic needle found");
            }
            if e + n + 32 > h {
                frag.class("match inside the last 32 bytes");
            }
            if n > 32 {
                if let Some((i1, i2)) = subgen::default_pair(&c.needle) {
                    if h - e < 32 + i1.max(i2) {
                        frag.class("needle > 32 found with fewer than 32+max pair offset bytes left (short-haystack prefilter route)");
                    }
                }
            }
        }
    } else {
        frag.class("needle absent");
    }
    // near miss before the answer: a window sharing a prefix of >= half the needle that is not an occurrence
    if n >= 2 {
        let lim = first.unwrap_or(h.saturating_sub(n) + 1);
        let half = (n + 1) / 2;
        let mut found = false;
        let mut i = 0;
        while i + n <= h && i < lim && !found {
            if c.hay[i..i + half] == c.needle[..half] && c.hay[i..i + n] != c.needle[..] {
                found = true;
            }
            i += 1;
        }
        if found {
            frag.class("near miss of >= half the needle before the answer");
            nt = true;
        }
    }
    // false-candidate stretch before the first occurrence
    let mut upto = 0usize;
    let mut fc_before = false;
    for p in c.pieces.iter() {
        if let subgen::Piece::FalseCandidates(k) = p {
            if *k >= 50 && first.map_or(false, |e| e >= upto) && n >= 2 {
                fc_before = true;
            }
        }
        // upper bound of the position reached so far (pieces are at most this long)
        upto += match p {
            subgen::Piece::Needle | subgen::Piece::NearMiss(..) | subgen::Piece::HashEqual(..) | subgen::Piece::HashBlind(..) | subgen::Piece::Rotation(..) => n,
            _ => 0,
        };
    }
    if fc_before {
        frag.class("false-candidate stretch (>= 50 candidates) before the first occurrence");
    }
    nt
}

pub fn pbt(ctx: &Ctx, mode: SubMode, stage: &str) -> Frag {
    let mut frag = ctx.frag(stage);
    let cases = match stage {
        "sub-proptest" => ctx.n(400_000, 6_000_000),
        "sub-phases" => ctx.n(60_000, 1_000_000),
        _ => ctx.n(120_000, 2_000_000),
    };
    let cases = if mvcore::cfgs::cfg_emu() { cases / 4 } else { cases } as u32;
    if stage == "sub-proptest" {
        frag.require(&REQUIRED_SUB_CLASSES[..7]);
    } else if stage == "sub-phases" {
        frag.require(&[REQUIRED_SUB_CLASSES[8], "periodic needle found"]);
    } else {
        frag.require(&[REQUIRED_SUB_CLASSES[7]]);
    }
    let g = RefCell::new(Gen { frag, failed: None, stats: SubStats::default() });
    let ah = RefCell::new(Arena::new(8));
    let an = RefCell::new(Arena::new(6));
    let mut runner = crate::ctx::runner(ctx.stream_seed(stage), cases);
    let body = |c: SubCase| -> Result<(), TestCaseError> {
        let mut g = g.borrow_mut();
        let g = &mut *g;
        let counting = g.failed.is_none();
        let code = oracle::fnv(&[&c.needle, &c.hay]);
        let place = match code % 7 {
            0 | 1 => Place::End,
            2 => Place::Start,
            3 => Place::MidEnd((code >> 8) as usize % 64),
            _ => Place::Mid((code >> 8) as usize % 64),
        };
        let nplace = if code >> 20 & 1 == 0 { Place::End } else { Place::Start };
        let mut ahb = ah.borrow_mut();
        let mut anb = an.borrow_mut();
        let hp = ahb.put(&c.hay, place);
        let np = anb.put(&c.needle, nplace);
        if counting {
            g.frag.evaluations += 1;
            let first = oracle::naive_find(hp, np);
            let nt = classify(&mut g.frag, &c, first);
            if nt {
                g.frag.nontrivial_hashes.insert(code);
                if g.frag.want_sample() && c.hay.len() < 200 && c.needle.len() < 40 && c.needle.len() > 2 && first.is_some() {
                    g.frag.sample(json!({"stage":stage,"needle":show(np),"haystack":show(hp),"first":first,"last":oracle::naive_rfind(hp, np),
                        "greedy":oracle::greedy_fwd(hp, np).len(),"needle_kind":subgen::NEEDLE_KINDS[c.spec.kind as usize]}));
                }
            }
        }
        journal::set_ctx(&format!("{{\"stage\":\"{}\",\"needle\":\"{}\",\"hay\":\"{}\",\"place\":{}}}", stage, hex(np), hex(hp), place_json(place)));
        let _ = events_take();
        let set = match catch_unwind(AssertUnwindSafe(|| SubSet::new(np))) {
            Ok(s) => s,
            Err(_) if !mode.judge_panics => return Ok(()),
            Err(p) => {
                g.failed = Some(sub_viol(ctx, "constructors", "panic", np, hp, place, "no panic", &panic_msg(&p), &format!("panic while building finders: {}", panic_msg(&p))));
                return Err(TestCaseError::fail("violation"));
            }
        };
        let mut scratch = SubStats::default();
        let r = check_pair(ctx, mode, &set, hp, place, if counting { &mut g.stats } else { &mut scratch });
        if counting {
            for e in event_names(events_take()) {
                g.frag.class(&format!("event: {}", e));
            }
        }
        if let Some(v) = r {
            g.failed = Some(v);
            return Err(TestCaseError::fail("violation"));
        }
        Ok(())
    };
    let res = match stage {
        "sub-proptest" => runner.run(&subgen::sub_case(), body),
        "sub-phases" => runner.run(&subgen::phase_case(), body),
        _ => runner.run(&subgen::short_fallback_case(), body),
    };
    let mut g = g.into_inner();
    if res.is_err() {
        if let Some(v) = g.failed.take() {
            g.frag.violation(v);
        } else {
            g.frag.notes.push(format!("proptest aborted without a recorded violation: {}", res.err().map(|e| e.to_string()).unwrap_or_default()));
        }
    }
    g.frag.extra.insert("searcher_calls".into(), json!(g.stats.calls));
    g.frag.extra.insert("iterator_items".into(), json!(g.stats.iter_items));
    g.frag
}

pub fn replay(ctx: &Ctx, v: &Value) -> Option<Value> {
    let needle = unhex(v["needle"].as_str().unwrap_or(""));
    let hay = unhex(v["haystack"].as_str().unwrap_or(""));
    let place = place_from_json(&v["place"]);
    let mut ah = Arena::new(4 + hay.len() / 4096 + 2);
    let mut an = Arena::new(4 + needle.len() / 4096 + 2);
    let hp = ah.put(&hay, place);
    let np = an.put(&needle, Place::End);
    let set = SubSet::new(np);
    let mut st = SubStats::default();
    check_pair(ctx, mode_for(&ctx.prop), &set, hp, place, &mut st)
}
