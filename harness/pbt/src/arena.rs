//! A page-granular arena: [PROT_NONE page][data pages][PROT_NONE page].
//! Haystacks are copied to a chosen alignment in the middle, or so that they
//! end exactly at the trailing guard page, or start exactly after the
//! leading one. Nothing depends on the heap allocator.

use std::ptr;

pub const PAGE: usize = 4096;

pub struct Arena {
    base: *mut u8,
    total: usize,
    data: *mut u8,
    data_len: usize,
}

#[derive(Clone, Copy, Debug, PartialEq, Eq)]
pub enum Place {
    /// start address = 64-aligned address + align
    Mid(usize),
    /// end of the slice abuts the trailing guard page
    End,
    /// start of the slice abuts the leading guard page
    Start,
    /// end address = 64-aligned address + align (reverse scans align on end)
    MidEnd(usize),
}

impl Arena {
    pub fn new(data_pages: usize) -> Arena {
        unsafe {
            let total = (data_pages + 2) * PAGE;
            let base = libc::mmap(
                ptr::null_mut(),
                total,
                libc::PROT_READ | libc::PROT_WRITE,
                libc::MAP_PRIVATE | libc::MAP_ANONYMOUS,
                -1,
                0,
            );
            assert!(base != libc::MAP_FAILED, "mmap failed");
            let base = base as *mut u8;
            assert_eq!(0, libc::mprotect(base as *mut _, PAGE, libc::PROT_NONE));
            assert_eq!(
                0,
                libc::mprotect(
                    base.add(total - PAGE) as *mut _,
                    PAGE,
                    libc::PROT_NONE
                )
            );
            Arena {
                base,
                total,
                data: base.add(PAGE),
                data_len: data_pages * PAGE,
            }
        }
    }

    pub fn data_range(&self) -> (usize, usize) {
        (self.data as usize, self.data as usize + self.data_len)
    }

    pub fn capacity(&self) -> usize {
        self.data_len - 2 * PAGE
    }

    /// Fill the whole data area with `b`.
    pub fn fill(&mut self, b: u8) {
        unsafe { ptr::write_bytes(self.data, b, self.data_len) }
    }

    /// A mutable window of `len` bytes at the requested placement. The
    /// content is whatever was there before.
    pub fn window(&mut self, len: usize, place: Place) -> &mut [u8] {
        if len + 2 * PAGE > self.data_len {
            // grow: a fresh, larger mapping (contents are rewritten by every caller anyway)
            let pages = (len + 2 * PAGE) / PAGE + 2;
            let bigger = Arena::new(pages);
            let old = std::mem::replace(self, bigger);
            drop(old);
        }
        assert!(len + 2 * PAGE <= self.data_len, "arena too small");
        unsafe {
            let p = match place {
                Place::Mid(a) => {
                    let mid = self.data.add(PAGE);
                    debug_assert_eq!(0, mid as usize % 64);
                    mid.add(a % PAGE)
                }
                Place::MidEnd(a) => {
                    // end = aligned + a
                    let end_aligned = self.data.add(self.data_len - PAGE);
                    let end = end_aligned.add(a % PAGE);
                    end.sub(len)
                }
                Place::End => self.data.add(self.data_len - len),
                Place::Start => self.data,
            };
            std::slice::from_raw_parts_mut(p, len)
        }
    }

    /// Copy `src` to the requested placement and return the placed slice.
    pub fn put(&mut self, src: &[u8], place: Place) -> &[u8] {
        let w = self.window(src.len(), place);
        w.copy_from_slice(src);
        &*w
    }
}

impl Drop for Arena {
    fn drop(&mut self) {
        unsafe {
            libc::munmap(self.base as *mut _, self.total);
        }
    }
}
