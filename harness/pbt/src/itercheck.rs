//! Byte-search iterators: C06 (every interleaving of next/next_back, size_hint)
//! and the partially-consumed-iterator half of C07 (count()).

use crate::arena::{Arena, Place};
use crate::bytecheck::{filler, panic_msg, place_json};
use crate::ctx::Ctx;
use crate::journal;
use crate::report::{hex, show, unhex, Frag};
use mvcore::bytes::{self, TopRev, TreeStats};
use mvcore::oracle;
use proptest::prelude::*;
use serde_json::{json, Value};
use std::cell::RefCell;
use std::panic::{catch_unwind, AssertUnwindSafe};

fn impls(level: u8) -> Vec<u8> {
    if level == 0 {
        (0..bytes::N_IMPLS as u8).filter(|&i| bytes::has_iter(i)).collect()
    } else {
        vec![bytes::TOP]
    }
}

fn stats_for(prop: &str) -> TreeStats {
    if prop == "C07" {
        TreeStats::new(false, false, true)
    } else if prop == "C14" || prop == "C05" {
        // only panics (C14) / memory faults (C05) are judged
        TreeStats::new(false, false, false)
    } else {
        // C06 judges values and size_hint; C09/C14/C05 runs judge everything
        TreeStats::new(true, prop != "C07", prop != "C06")
    }
}

fn viol(ctx: &Ctx, imp: &str, needles: &[u8], hay: &[u8], place: Place, what: &str) -> Value {
    let config = ctx.config();
    json!({
        "property": ctx.prop, "kind": "byte-iter", "config": config, "level": ctx.level, "impl": imp, "op": "iter",
        "needles": hex(needles), "haystack": hex(hay), "haystack_len": hay.len(), "haystack_shown": show(hay),
        "place": place_json(place), "what": what, "expected": "model deque of naive match positions", "observed": what,
        "signature": format!("{}|{}|{}|iter|{}|{}", ctx.prop, config, imp, hex(needles), hex(hay)),
    })
}

/// Explore one haystack on every implementation. Returns a violation record.
fn explore_all(
    ctx: &Ctx,
    impls: &[u8],
    needles: &[u8],
    placed: &[u8],
    place: Place,
    totals: &mut TreeStats,
) -> Option<Value> {
    let matches = oracle::naive_positions(needles, placed);
    for &imp in impls {
        let s = match bytes::make(imp, needles) {
            Some(s) => s,
            None => continue,
        };
        let mut st = stats_for(&ctx.prop);
        let r = catch_unwind(AssertUnwindSafe(|| s.iter_tree(placed, &matches, &mut st)));
        totals.nodes += st.nodes;
        totals.calls += st.calls;
        totals.counts += st.counts;
        match r {
            Ok(Ok(())) => {}
            Ok(Err(e)) => return Some(viol(ctx, bytes::IMPL_NAMES[imp as usize], needles, placed, place, &e)),
            Err(_) if ctx.prop == "C05" => {}
            Err(p) => return Some(viol(ctx, bytes::IMPL_NAMES[imp as usize], needles, placed, place, &format!("panic: {}", panic_msg(&p)))),
        }
    }
    // memrchr{,2,3}_iter: the .rev() adaptors of the top-level iterators
    let rev: Vec<usize> = matches.iter().rev().copied().collect();
    let tr = TopRev::new(needles);
    let mut st = stats_for(&ctx.prop);
    st.check_count = false;
    let r = catch_unwind(AssertUnwindSafe(|| tr.iter_tree(placed, &rev, &mut st)));
    totals.nodes += st.nodes;
    totals.calls += st.calls;
    match r {
        Ok(Ok(())) => None,
        Ok(Err(e)) => Some(viol(ctx, "top-rev", needles, placed, place, &e)),
        Err(_) if ctx.prop == "C05" => None,
        Err(p) => Some(viol(ctx, "top-rev", needles, placed, place, &format!("panic: {}", panic_msg(&p)))),
    }
}

fn nontrivial(matches: &[usize], vb: usize) -> bool {
    matches.len() >= 2 && matches.windows(2).any(|w| w[1] - w[0] < vb)
}

/// All match bitmaps of short haystacks, full call trees.
pub fn exhaustive(ctx: &Ctx) -> Frag {
    let mut frag = ctx.frag("iter-exhaustive");
    let mut arena = Arena::new(8);
    let impls = impls(ctx.level);
    let max_len = if ctx.thorough { 12 } else { 10 };
    let sets: Vec<Vec<u8>> = vec![vec![b'a'], vec![0x80, 0x00], vec![b'x', 0xFF, b'y']];
    let mut totals = TreeStats::new(true, true, true);
    let mut group = 0;
    'outer: for needles in sets.iter() {
        let ar = needles.len();
        for a in [0usize, 3, 31, 63] {
            for len in 0..=max_len {
                group += 1;
                if !ctx.mine(group) {
                    continue;
                }
                let place = Place::Mid(a);
                let fill = filler(needles, a + len);
                for bits in 0u32..(1 << len) {
                    let w = arena.window(len, place);
                    for i in 0..len {
                        w[i] = if bits >> i & 1 == 1 { needles[(i + a) % ar] } else { fill };
                    }
                    frag.evaluations += 1;
                    if bits.count_ones() >= 2 {
                        frag.nontrivial_enum += 1;
                    }
                    journal::set_ctx(&format!("{{\"stage\":\"iter-exhaustive\",\"needles\":\"{}\",\"hay\":\"{}\",\"place\":{}}}", hex(needles), hex(w), place_json(place)));
                    if let Some(v) = explore_all(ctx, &impls, needles, w, place, &mut totals) {
                        frag.violation(v);
                        break 'outer;
                    }
                }
            }
        }
    }
    frag.extra.insert("iterator_calls".into(), json!(totals.calls));
    frag.extra.insert("tree_nodes".into(), json!(totals.nodes));
    frag.extra.insert("count_calls_on_partially_consumed".into(), json!(totals.counts));
    frag.sample(json!({"stage":"iter-exhaustive","enumerated": format!("every match bitmap of every haystack length 0..={} at alignments 0,3,31,63, needle sets 61 / 8000 / 78ff79; complete next/next_back call tree (2^(k+2) paths for k matches), clone at every node", max_len)}));
    frag.subspaces.push(json!({"what":"all match bitmaps x complete next/next_back call tree","max_len":max_len,"exhaustive_within_bounds":true}));
    frag
}

#[derive(Clone, Debug)]
pub struct IterCase {
    pub needles: Vec<u8>,
    pub hay: Vec<u8>,
    pub place: Place,
}

pub fn iter_case(max_len: usize) -> impl Strategy<Value = IterCase> {
    let needles = prop_oneof![
        Just(vec![b'a']),
        Just(vec![0u8]),
        Just(vec![0xFFu8, 0x80]),
        Just(vec![b'a', b'b']),
        Just(vec![b'a', b'b', b'c']),
        Just(vec![0x7Fu8, 0x7F, 0x01]),
        (any::<u8>(), any::<u8>(), any::<u8>()).prop_map(|(a, b, c)| vec![a, b, c]),
    ];
    let len = prop_oneof![
        4 => 0usize..=96,
        2 => 0usize..=300,
        1 => 0usize..=max_len,
    ];
    let place = prop_oneof![
        3 => (0usize..64).prop_map(Place::Mid),
        2 => (0usize..64).prop_map(Place::MidEnd),
        1 => Just(Place::End),
        1 => Just(Place::Start),
    ];
    (
        needles,
        len,
        place,
        // layout: 0..=5 sparse with k matches, 6 clustered, 7 dense
        0u8..8,
        prop::collection::vec(0u32..65536, 0..=10),
        any::<u64>(),
    )
        .prop_map(|(needles, len, place, layout, fr, bits)| {
            let fill = filler(&needles, bits as usize % 16);
            let mut hay = vec![fill; len];
            let ar = needles.len();
            if len > 0 {
                match layout {
                    0..=4 => {
                        for (k, f) in fr.iter().enumerate() {
                            let p = ((*f as u64 * len as u64) >> 16) as usize;
                            hay[p] = needles[k % ar];
                        }
                    }
                    5 | 6 => {
                        // a cluster inside one vector around a centre
                        let c = ((fr.get(0).copied().unwrap_or(0) as u64 * len as u64) >> 16) as usize;
                        for (k, f) in fr.iter().enumerate() {
                            let p = (c + (*f as usize % 40)).min(len - 1);
                            hay[p] = needles[k % ar];
                        }
                    }
                    _ => {
                        let shift = [1u32, 2, 4][bits as usize % 3];
                        let mut x = bits | 1;
                        for i in 0..len {
                            x ^= x << 13;
                            x ^= x >> 7;
                            x ^= x << 17;
                            if x & ((1 << shift) - 1) == 0 {
                                hay[i] = needles[(x >> 40) as usize % ar];
                            }
                        }
                    }
                }
            }
            IterCase { needles, hay, place }
        })
}

pub fn pbt(ctx: &Ctx) -> Frag {
    let frag = ctx.frag("iter-proptest");
    let max_len = if ctx.thorough { 4096 } else { 1024 };
    let cases = ctx.n(30_000, 300_000) as u32;
    let impls = impls(ctx.level);
    let arena = RefCell::new(Arena::new(4 + max_len / 4096 + 2));
    struct St {
        frag: Frag,
        failed: Option<Value>,
        totals: TreeStats,
    }
    let st = RefCell::new(St { frag, failed: None, totals: TreeStats::new(true, true, true) });
    let mut runner = crate::ctx::runner(ctx.stream_seed("iter-proptest"), cases);
    let res = runner.run(&iter_case(max_len), |c| {
        let mut s = st.borrow_mut();
        let s = &mut *s;
        let mut ar = arena.borrow_mut();
        let placed = ar.put(&c.hay, c.place);
        let counting = s.failed.is_none();
        if counting {
            let m = oracle::naive_positions(&c.needles, placed);
            s.frag.evaluations += 1;
            let nt = nontrivial(&m, 32);
            if nt {
                s.frag.nontrivial_hashes.insert(oracle::fnv(&[&c.needles, placed]));
            }
            s.frag.class(match m.len() {
                0 => "0 matches",
                1 => "1 match",
                2..=10 => "2..=10 matches (complete call tree)",
                _ => ">10 matches (state lattice)",
            });
            if nt {
                s.frag.class("two matches closer than one vector");
            }
            if nt && s.frag.want_sample() {
                s.frag.sample(json!({"stage":"iter-proptest","needles":hex(&c.needles),"haystack":show(placed),"len":placed.len(),"matches":m.len(),"place":place_json(c.place)}));
            }
        }
        journal::set_ctx(&format!("{{\"stage\":\"iter-proptest\",\"needles\":\"{}\",\"hay\":\"{}\",\"place\":{}}}", hex(&c.needles), hex(placed), place_json(c.place)));
        let mut scratch = TreeStats::new(true, true, true);
        let totals = if counting { &mut s.totals } else { &mut scratch };
        if let Some(v) = explore_all(ctx, &impls, &c.needles, placed, c.place, totals) {
            s.failed = Some(v);
            return Err(TestCaseError::fail("violation"));
        }
        Ok(())
    });
    let mut s = st.into_inner();
    if let Err(e) = &res {
        if let Some(v) = s.failed.take() {
            s.frag.violation(v);
        } else {
            s.frag.notes.push(format!("proptest aborted without a recorded violation: {}", e.to_string().chars().take(500).collect::<String>()));
        }
    }
    s.frag.require(&["2..=10 matches (complete call tree)", ">10 matches (state lattice)", "two matches closer than one vector"]);
    s.frag.extra.insert("iterator_calls".into(), json!(s.totals.calls));
    s.frag.extra.insert("tree_nodes".into(), json!(s.totals.nodes));
    s.frag.extra.insert("count_calls_on_partially_consumed".into(), json!(s.totals.counts));
    s.frag
}

pub fn replay(ctx: &Ctx, v: &Value) -> Option<Value> {
    let needles = unhex(v["needles"].as_str().unwrap_or(""));
    let hay = unhex(v["haystack"].as_str().unwrap_or(""));
    let place = crate::bytecheck::place_from_json(&v["place"]);
    let mut arena = Arena::new(4 + hay.len() / 4096 + 2);
    let placed = arena.put(&hay, place);
    let mut totals = TreeStats::new(true, true, true);
    let want = v["impl"].as_str().unwrap_or("");
    let mut list: Vec<u8> = impls(ctx.level);
    if want != "top-rev" {
        list.retain(|&i| bytes::IMPL_NAMES[i as usize] == want);
    }
    explore_all(ctx, &list, &needles, placed, place, &mut totals)
}
