//! `mv`: generators, enumerators, per-property checks, replay.
#![allow(dead_code)]

mod arena;
mod bytecheck;
mod casecheck;
mod alloccheck;
mod ctx;
mod stepcheck;
mod threadcheck;
mod histcheck;
mod hugecheck;
mod largecheck;
mod itercheck;
mod misccheck;
mod ppcheck;
mod subcheck;
mod subgen;
mod journal;
mod report;

use ctx::Ctx;
use serde_json::Value;

#[global_allocator]
static GLOBAL: alloccheck::Counting = alloccheck::Counting;

fn silence_panics() {
    std::panic::set_hook(Box::new(|_| {}));
}

fn main() {
    let args: Vec<String> = std::env::args().skip(1).collect();
    if args.is_empty() {
        eprintln!("usage: mv <command> [--prop Cxx] [--tier quick|thorough] [--seed N] [--shard i/n] [--level auto|sse2|fb] [--out file]");
        std::process::exit(2);
    }
    let c = Ctx::parse(&args);
    mvcore::cfgs::set_level(c.level);
    let crash = c.out.as_ref().map(|o| format!("{}.crash", o));
    journal::install(crash.as_deref());
    if std::env::var("MV_LOUD_PANICS").is_err() {
        silence_panics();
    }
    match c.cmd.as_str() {
        "config" => {
            println!("{}", c.config());
        }
        "bytes-exh" => {
            let mode = bytecheck::mode_for(&c.prop);
            let places: Vec<&str> = if c.rest.is_empty() {
                match c.prop.as_str() {
                    "C02" => vec!["midend"],
                    "C05" => vec!["end", "start", "mid", "midend"],
                    _ => vec!["mid"],
                }
            } else {
                c.rest.iter().map(|s| s.as_str()).collect()
            };
            let f = bytecheck::exhaustive(&c, mode, &places);
            c.finish(f);
        }
        "bytes-bitmaps" => {
            let f = bytecheck::bitmaps(&c, bytecheck::mode_for(&c.prop));
            c.finish(f);
        }
        "bytes-pbt" => {
            let f = bytecheck::pbt(&c, bytecheck::mode_for(&c.prop));
            c.finish(f);
        }
        "bytes-sweep" => {
            let f = bytecheck::sweep(&c, bytecheck::mode_for(&c.prop));
            c.finish(f);
        }
        "iter-exh" => {
            let f = itercheck::exhaustive(&c);
            c.finish(f);
        }
        "iter-pbt" => {
            let f = itercheck::pbt(&c);
            c.finish(f);
        }
        "eq-exh" => {
            let f = misccheck::eq_exhaustive(&c);
            c.finish(f);
        }
        "eq-pbt" => {
            let f = misccheck::eq_pbt(&c);
            c.finish(f);
        }
        "pair-indices" => {
            let f = misccheck::pair_indices(&c);
            c.finish(f);
        }
        "pair-pbt" => {
            let f = misccheck::pair_pbt(&c);
            c.finish(f);
        }
        "sub-exh" => {
            let f = subcheck::exhaustive(&c, subcheck::mode_for(&c.prop));
            c.finish(f);
        }
        "sub-pbt" => {
            let f = subcheck::pbt(&c, subcheck::mode_for(&c.prop), "sub-proptest");
            c.finish(f);
        }
        "sub-phases" => {
            let f = subcheck::pbt(&c, subcheck::mode_for(&c.prop), "sub-phases");
            c.finish(f);
        }
        "sub-short" => {
            let f = subcheck::pbt(&c, subcheck::mode_for(&c.prop), "sub-short");
            c.finish(f);
        }
        "pp-exh" => {
            let f = ppcheck::exhaustive(&c, ppcheck::mode_for(&c.prop));
            c.finish(f);
        }
        "pp-pbt" => {
            let f = ppcheck::pbt(&c, ppcheck::mode_for(&c.prop));
            c.finish(f);
        }
        "c10" => {
            let f = histcheck::c10(&c, "c10-proptest");
            c.finish(f);
        }
        "c10-phases" => {
            let f = histcheck::c10(&c, "c10-phases");
            c.finish(f);
        }
        "history" => {
            let f = histcheck::c16(&c);
            c.finish(f);
        }
        "alloc" => {
            let f = alloccheck::c17(&c);
            c.finish(f);
        }
        "steps" => {
            let f = stepcheck::steps_stage(&c);
            c.finish(f);
        }
        "steps-gen" => {
            let f = stepcheck::steps_generic(&c);
            c.finish(f);
        }
        "steps-exh" => {
            let f = stepcheck::steps_exhaustive(&c);
            c.finish(f);
        }
        "threads" => {
            let f = threadcheck::c15(&c);
            c.finish(f);
        }
        "huge" => {
            let f = hugecheck::huge(&c);
            c.finish(f);
        }
        "large" => {
            let f = largecheck::large(&c);
            c.finish(f);
        }
        "gen-threads" => {
            threadcheck::gen_threads(&c);
        }
        "gen-cases" => {
            casecheck::gen_cases(&c);
        }
        "judge-cases" => {
            let f = casecheck::judge_cases(&c);
            c.finish(f);
        }
        "replay" => {
            let path = c.rest.get(0).expect("replay <file>");
            let v: Value = serde_json::from_slice(&std::fs::read(path).expect("read replay file")).expect("parse replay file");
            let mut c2 = c.clone();
            c2.prop = v["property"].as_str().unwrap_or("").to_string();
            let r = match v["kind"].as_str().unwrap_or("") {
                "byte" => bytecheck::replay(&c2, &v),
                "byte-iter" => itercheck::replay(&c2, &v),
                "eq" => misccheck::eq_replay(&c2, &v),
                "huge" => hugecheck::huge(&c2).violations.into_iter().next(),
                "large" => largecheck::replay(&c2, &v),
                "alloc" => alloccheck::replay(&c2, &v),
                "steps" => stepcheck::replay(&c2, &v),
                "threads" => threadcheck::replay(&c2, &v),
                "c10" => histcheck::c10_replay(&c2, &v),
                "history" => histcheck::c16_replay(&c2, &v),
                "sub" if v["op"].as_str().unwrap_or("").contains('[') => ppcheck::replay(&c2, &v),
                "sub" => subcheck::replay(&c2, &v),
                "pair" => misccheck::pair_replay(&c2, &v),
                k => {
                    eprintln!("unknown replay kind {}", k);
                    std::process::exit(2);
                }
            };
            match r {
                Some(v2) => {
                    println!("{}", serde_json::to_string(&v2).unwrap());
                    std::process::exit(1);
                }
                None => {
                    println!("{{\"replay\":\"no longer fails\"}}");
                    std::process::exit(0);
                }
            }
        }
        other => {
            eprintln!("unknown command {}", other);
            std::process::exit(2);
        }
    }
}
