//! Case files for configurations that cannot run the proptest harness
//! in-process (no-std / alloc-only / +avx2 / plain-release builds of the
//! crate, Miri targets): `gen-cases` writes the cases, `mvexec cases`
//! executes them in each configuration, `judge-cases` compares every
//! observation with the naive oracle and across configurations (C09), and
//! attributes interpreter aborts to the journaled case (C05).

use crate::arena::Place;
use crate::ctx::Ctx;
use crate::report::{hex, show, Frag};
use crate::{bytecheck, itercheck, ppcheck, subgen};
use mvcore::bytes;
use mvcore::exec::Case;
use mvcore::oracle;
use mvcore::subs;
use proptest::prelude::*;
use proptest::strategy::ValueTree;
use serde_json::{json, Value};
use std::collections::BTreeMap;

fn align_of(p: Place) -> usize {
    match p {
        Place::Mid(a) | Place::MidEnd(a) => a % 64,
        Place::End => 63,
        Place::Start => 0,
    }
}

fn case_strategy(small: bool, tiny: bool) -> impl Strategy<Value = Case> {
    let maxb = if tiny { 90 } else if small { 200 } else { 1024 };
    let sub = prop_oneof![4 => subgen::sub_case(), 1 => subgen::phase_case(), 1 => subgen::short_fallback_case()];
    // long haystacks in which the needle recurs with a fixed period (every vector of a long stretch has a
    // match in the same lane, or in every lane): counters, accumulated masks and block loops that only
    // differ between back ends after thousands of bytes
    let dense_max = if small { maxb } else { 20000 };
    let dense_min = if small { 16 } else { 2048 };
    let dense = (
        any::<u8>(),
        any::<u8>(),
        prop::sample::select(vec![1usize, 1, 2, 3, 4, 8, 16, 16, 32, 64]),
        any::<u8>(),
        dense_min..=dense_max,
        prop::collection::vec((any::<u16>(), any::<bool>()), 0..=3),
        0usize..64,
        1usize..=3,
    )
        .prop_map(|(b, fill, p, r, len, flips, align, arity)| {
            let fill = if fill == b { fill.wrapping_add(1) } else { fill };
            let mut hay: Vec<u8> = (0..len).map(|i| if i % p == (r as usize) % p { b } else { fill }).collect();
            for (f, to_needle) in flips {
                let at = ((f as u64 * len as u64) >> 16) as usize;
                hay[at] = if to_needle { b } else { fill };
            }
            let needles = match arity {
                1 => vec![b],
                2 => vec![b, b.wrapping_add(7)],
                _ => vec![b.wrapping_add(9), b.wrapping_add(7), b],
            };
            Case::Byte { align, needles, hay }
        });
    prop_oneof![
        3 => dense,
        240 => bytecheck::byte_case(maxb).prop_map(|c| Case::Byte { align: align_of(c.place), needles: c.needles, hay: c.hay }),
        120 => (itercheck::iter_case(maxb), prop::collection::vec(0u8..3, 0..=14)).prop_map(|(c, pattern)| Case::Iter { align: align_of(c.place), needles: c.needles, hay: c.hay, pattern }),
        300 => (sub, 0usize..64).prop_map(move |(c, align)| {
            let mut hay = c.hay;
            if small {
                hay.truncate(if tiny { 160 } else { 700 });
            }
            Case::Sub { align, needle: c.needle, hay }
        }),
        120 => (ppcheck::pp_case(), 0usize..64, any::<u16>()).prop_map(|(c, align, cut)| {
            // one in four is cut down to the neighbourhood of a minimum length
            let mut hay = c.hay;
            if cut % 4 == 0 {
                let m = c.needle.len().max(c.i1.max(c.i2) + [4usize, 8, 16, 32][(cut as usize >> 2) % 4]);
                let l = (m as i64 + (cut as i64 >> 4) % 4 - 2).max(0) as usize;
                hay.truncate(l);
            }
            Case::Pair { align, needle: c.needle, i1: c.i1 as u8, i2: c.i2 as u8, hay }
        }),
        60 => crate::histcheck::history().prop_map(move |mut h| {
            if small {
                for x in h.hays.iter_mut() {
                    x.truncate(if tiny { 120 } else { 400 });
                }
                h.before.truncate(14);
                h.after.truncate(10);
            }
            Case::Hist(h)
        }),
        60 => (prop::collection::vec(any::<u8>(), 0..=120), any::<u16>(), any::<u16>(), 0u8..5, 0usize..64, 0usize..64).prop_map(|(base, f1, f2, kind, ax, ay)| {
            let len = base.len();
            let at = |f: u16, n: usize| ((f as u64 * n as u64) >> 16) as usize;
            let y = match kind {
                0 => base.clone(),
                1 if len > 0 => {
                    let mut y = base.clone();
                    y[at(f1, len)] ^= 1 << (f2 % 8);
                    y
                }
                2 => base[..at(f1, len + 1)].to_vec(),
                3 => base[at(f1, len + 1)..].to_vec(),
                _ => {
                    let mut y = base[..at(f1, len + 1)].to_vec();
                    if !y.is_empty() {
                        let p = at(f2, y.len());
                        y[p] ^= 0x80;
                    }
                    y
                }
            };
            Case::Eq { ax, ay, x: base, y }
        }),
    ]
}

/// `mv gen-cases --out <file> [count] [small]`: deterministic in the seed.
pub fn gen_cases(ctx: &Ctx) {
    let count: usize = ctx.rest.get(0).and_then(|s| s.parse().ok()).unwrap_or(1000);
    let small = ctx.rest.get(1).map_or(false, |s| s == "small" || s == "tiny");
    let tiny = ctx.rest.get(1).map_or(false, |s| s == "tiny");
    // optional filter: a subset of the case kinds "BISPE"
    let kinds = ctx.rest.get(2).cloned().unwrap_or_else(|| "BISPEH".to_string());
    let mut runner = crate::ctx::runner(ctx.stream_seed("gen-cases"), 1);
    let strat = case_strategy(small, tiny);
    let mut text = String::new();
    let mut n = 0;
    let mut tries = 0;
    while n < count && tries < count * 200 {
        tries += 1;
        let t = strat.new_tree(&mut runner).expect("generate case");
        let line = t.current().encode();
        if !kinds.contains(&line[..1]) {
            continue;
        }
        text.push_str(&line);
        text.push('\n');
        n += 1;
    }
    std::fs::write(ctx.out.as_ref().expect("--out"), text).expect("write case file");
}

fn parse_obs(line: &str) -> BTreeMap<String, String> {
    let mut m = BTreeMap::new();
    for tok in line.split_whitespace() {
        if let Some(eq) = tok.find('=') {
            m.insert(tok[..eq].to_string(), tok[eq + 1..].to_string());
        }
    }
    m
}

fn opt(o: Option<usize>) -> String {
    match o {
        None => "N".into(),
        Some(i) => i.to_string(),
    }
}

fn seq(v: &[usize]) -> String {
    if v.is_empty() {
        return "[]".into();
    }
    format!("[{}]", v.iter().map(|x| x.to_string()).collect::<Vec<_>>().join(","))
}

/// Expected value of one observation key, or a predicate verdict.
/// Returns None when the key has no oracle (compared across configurations only).
fn expected(c: &Case, key: &str, val: &str) -> Option<Result<(), String>> {
    let eq = |e: String| -> Option<Result<(), String>> { Some(if e == val { Ok(()) } else { Err(e) }) };
    match c {
        Case::Byte { needles, hay, .. } => {
            let op = key.rsplit('.').next().unwrap_or("");
            match op {
                "find" | "find_raw" => eq(opt(oracle::naive_pos(needles, hay))),
                "rfind" | "rfind_raw" => eq(opt(oracle::naive_rpos(needles, hay))),
                "count" => {
                    if val == "-" {
                        Some(Ok(()))
                    } else {
                        eq(oracle::naive_count(needles, hay).to_string())
                    }
                }
                "raw_empty" => eq("N".into()),
                _ => None,
            }
        }
        Case::Iter { needles, hay, pattern, .. } => {
            let m = oracle::naive_positions(needles, hay);
            let rev = key.starts_with("toprev");
            let model: Vec<usize> = if rev { m.iter().rev().copied().collect() } else { m };
            let (mut lo, mut hi) = (0usize, model.len());
            let mut out: Vec<i64> = Vec::new();
            for &p in pattern {
                let p = if p == bytes::IT_HINT || (rev && p == bytes::IT_COUNT) { bytes::IT_NEXT } else { p };
                match p {
                    bytes::IT_NEXT => {
                        if lo < hi {
                            out.push(model[lo] as i64);
                            lo += 1;
                        } else {
                            out.push(-1);
                        }
                    }
                    bytes::IT_BACK => {
                        if lo < hi {
                            hi -= 1;
                            out.push(model[hi] as i64);
                        } else {
                            out.push(-1);
                        }
                    }
                    _ => out.push((hi - lo) as i64),
                }
            }
            // Two/Three iterators have no count specialisation, but Iterator::count still counts
            eq(format!("[{}]", out.iter().map(|x| x.to_string()).collect::<Vec<_>>().join(",")))
        }
        Case::Sub { needle, hay, .. } => {
            if key == "find_iter" || key == "find_iter.top" {
                return eq(seq(&oracle::greedy_fwd(hay, needle)));
            }
            if key == "rfind_iter" {
                return eq(seq(&oracle::greedy_rev(hay, needle)));
            }
            if let Some(imp) = key.strip_prefix("s").and_then(|s| s.parse::<u8>().ok()) {
                return if imp >= 16 { eq(opt(oracle::naive_rfind(hay, needle))) } else { eq(opt(oracle::naive_find(hay, needle))) };
            }
            if key.starts_with("cand") {
                let e = oracle::naive_find(hay, needle);
                return Some(match (e, val) {
                    (Some(e), "N") => Err(format!("a candidate <= {}", e)),
                    (Some(e), v) => match v.parse::<usize>() {
                        Ok(c) if c <= e => Ok(()),
                        _ => Err(format!("a candidate <= {}", e)),
                    },
                    _ => Ok(()),
                });
            }
            if key == "construct" || key == "search" {
                return Some(Err("no panic".into()));
            }
            None
        }
        Case::Pair { needle, i1, i2, hay, .. } => {
            if key == "pair" {
                let valid = i1 != i2 && (*i1 as usize) < needle.len() && (*i2 as usize) < needle.len();
                return Some(if valid { Err("an accepted pair".into()) } else { Ok(()) });
            }
            None // judged together with the reported minimum below
        }
        Case::Hist(_) => {
            if key == "hist" {
                eq("OK".into())
            } else {
                None
            }
        }
        Case::Eq { x, y, .. } => match key {
            "is_equal" | "is_equal_raw" => eq((x == y).to_string()),
            "is_prefix" => eq(x.starts_with(y).to_string()),
            "is_suffix" => eq(x.ends_with(y).to_string()),
            _ => None,
        },
    }
}

/// Equivalence class of an observation key for C09: every observation in one class, from every
/// implementation and every configuration, must carry the same value. `None`: not compared.
fn c09_class(c: &Case, key: &str, val: &str) -> Option<String> {
    match c {
        Case::Byte { .. } => {
            let op = key.rsplit('.').next().unwrap_or("");
            match op {
                "find" | "find_raw" => Some("first position".into()),
                "rfind" | "rfind_raw" => Some("last position".into()),
                "count" if val != "-" => Some("count".into()),
                "raw_empty" => Some("raw(start==end)".into()),
                _ => None,
            }
        }
        Case::Iter { .. } => Some(if key.starts_with("toprev") { "reverse iterator sequence".into() } else { "iterator sequence".into() }),
        Case::Sub { .. } => {
            if key == "find_iter" || key == "find_iter.top" {
                return Some("find_iter sequence".into());
            }
            if key == "rfind_iter" {
                return Some("rfind_iter sequence".into());
            }
            if let Some(imp) = key.strip_prefix("s").and_then(|s| s.parse::<u8>().ok()) {
                return Some(if imp >= 16 { "rightmost occurrence".into() } else { "leftmost occurrence".into() });
            }
            if key == "construct" || key == "search" {
                return Some(key.to_string());
            }
            None
        }
        Case::Pair { .. } => {
            if key.ends_with(".find") && val != "P" && val != "-" {
                Some("packed pair find".into())
            } else if key.ends_with(".min") || key == "pair" {
                Some(key.to_string())
            } else {
                None
            }
        }
        Case::Eq { .. } => Some(if key == "is_equal_raw" { "is_equal".to_string() } else { key.to_string() }),
        Case::Hist(_) => Some(key.to_string()),
    }
}

fn pair_judgement(c: &Case, obs: &BTreeMap<String, String>) -> Option<(String, String, String)> {
    if let Case::Pair { needle, i1, i2, hay, .. } = c {
        let e = oracle::naive_find(hay, needle);
        for &imp in subs::PP_IMPLS.iter() {
            let min = match obs.get(&format!("pp{}.min", imp)).and_then(|s| s.parse::<usize>().ok()) {
                Some(m) => m,
                None => continue,
            };
            let below = hay.len() < min && min > 0;
            if let Some(v) = obs.get(&format!("pp{}.find", imp)) {
                if v != "-" {
                    let exp = if below { "P".to_string() } else { opt(e) };
                    if *v != exp {
                        return Some((format!("pp{}.find", imp), exp, v.clone()));
                    }
                }
            }
            if let Some(v) = obs.get(&format!("pp{}.cand", imp)) {
                if below {
                    if v != "P" {
                        return Some((format!("pp{}.cand", imp), "P".into(), v.clone()));
                    }
                } else {
                    let ok = match (e, v.as_str()) {
                        (_, "P") => false,
                        (Some(_), "N") => false,
                        (Some(e), s) => s.parse::<usize>().map_or(false, |c| c <= e),
                        (None, "N") => true,
                        (None, s) => s.parse::<usize>().map_or(false, |c| {
                            hay.get(c + *i1 as usize) == Some(&needle[*i1 as usize]) && hay.get(c + *i2 as usize) == Some(&needle[*i2 as usize])
                        }),
                    };
                    if !ok {
                        return Some((format!("pp{}.cand", imp), format!("candidate <= {:?} carrying both pair bytes", e), v.clone()));
                    }
                }
            }
        }
    }
    None
}

fn case_json(c: &Case) -> Value {
    match c {
        Case::Byte { align, needles, hay } => json!({"case":"byte","align":align,"needles":hex(needles),"haystack":show(hay),"len":hay.len()}),
        Case::Iter { align, needles, hay, pattern } => json!({"case":"byte-iter","align":align,"needles":hex(needles),"haystack":show(hay),"len":hay.len(),"calls":pattern}),
        Case::Sub { align, needle, hay } => json!({"case":"substring","align":align,"needle":show(needle),"haystack":show(hay),"len":hay.len()}),
        Case::Pair { align, needle, i1, i2, hay } => json!({"case":"packed-pair","align":align,"needle":show(needle),"pair":[i1,i2],"haystack":show(hay),"len":hay.len()}),
        Case::Eq { ax, ay, x, y } => json!({"case":"eq","ax":ax,"ay":ay,"x":show(x),"y":show(y)}),
        Case::Hist(h) => json!({"case":"history","needle":show(&h.needle),"haystacks":h.hays.len(),"ops_before_needle_freed":h.before.len(),"ops_after":h.after.len()}),
    }
}

/// `mv judge-cases --out frag <cases> <cfg>=<outfile>...`
/// Options in `rest` after the case file: `cfg=path` pairs; `abort:cfg=path` gives the stderr of an aborted interpreter run.
pub fn judge_cases(ctx: &Ctx) -> Frag {
    let mut frag = ctx.frag("casefile");
    let cases_path = ctx.rest.get(0).expect("case file");
    let text = std::fs::read_to_string(cases_path).expect("read cases");
    let cases: Vec<Option<Case>> = text.lines().map(Case::decode).collect();
    let mut outs: Vec<(String, Vec<Option<BTreeMap<String, String>>>, Vec<usize>)> = Vec::new();
    for a in ctx.rest.iter().skip(1) {
        let eq = match a.find('=') {
            Some(e) => e,
            None => continue,
        };
        let (cfg, path) = (&a[..eq], &a[eq + 1..]);
        let t = std::fs::read_to_string(path).unwrap_or_default();
        let mut obs: Vec<Option<BTreeMap<String, String>>> = vec![None; cases.len()];
        let mut begun: Vec<usize> = Vec::new();
        for line in t.lines() {
            if let Some(r) = line.strip_prefix("DONE ") {
                let mut it = r.splitn(2, ' ');
                if let Some(i) = it.next().and_then(|s| s.parse::<usize>().ok()) {
                    if i < obs.len() {
                        obs[i] = Some(parse_obs(it.next().unwrap_or("")));
                    }
                }
            } else if let Some(r) = line.strip_prefix("BEGIN ") {
                if let Ok(i) = r.trim().parse::<usize>() {
                    begun.push(i);
                }
            }
        }
        let aborted: Vec<usize> = begun.into_iter().filter(|&i| i < obs.len() && obs[i].is_none()).collect();
        outs.push((cfg.to_string(), obs, aborted));
    }
    let judge_values = ctx.prop != "C05" && ctx.prop != "C09";
    let cross_only = ctx.prop == "C09";
    let mut per_cfg: BTreeMap<String, u64> = BTreeMap::new();
    'cases: for (i, c) in cases.iter().enumerate() {
        let c = match c {
            Some(c) => c,
            None => continue,
        };
        let mut first: Option<(&str, &BTreeMap<String, String>)> = None;
        let mut executed = 0;
        // C09: value per equivalence class, with the (configuration, key) that produced it first
        let mut classes: BTreeMap<String, (String, String, String)> = BTreeMap::new();
        for (cfg, obs, aborted) in outs.iter() {
            if aborted.contains(&i) {
                // the interpreter (Miri) or the process died while executing this case
                let v = json!({
                    "property": ctx.prop, "kind": "casefile", "config": cfg, "impl": "mvexec", "op": "abort", "case_line": c.encode(), "case": case_json(c),
                    "haystack_len": c.encode().len(), "what": format!("execution of this case aborted in configuration {} (interpreter error or crash; see the stage's stderr)", cfg),
                    "expected": "normal completion", "observed": "abort",
                    "signature": format!("{}|{}|abort|{}", ctx.prop, cfg, c.encode()),
                });
                frag.violation(v);
                continue 'cases;
            }
            let o = match &obs[i] {
                Some(o) => o,
                None => continue,
            };
            executed += 1;
            *per_cfg.entry(cfg.clone()).or_insert(0) += 1;
            if cross_only {
                for (k, v) in o.iter() {
                    let cl = match c09_class(c, k, v) {
                        Some(cl) => cl,
                        None => continue,
                    };
                    match classes.get(&cl) {
                        None => {
                            classes.insert(cl, (cfg.clone(), k.clone(), v.clone()));
                        }
                        Some((cfg0, k0, v0)) => {
                            if v0 != v {
                                // which side is wrong? (only to word the report)
                                let wrong_here = matches!(expected(c, k, v), Some(Err(_)));
                                let (bad_cfg, bad_k, bad_v, ok_cfg, ok_k, ok_v) = if wrong_here { (cfg, k, v, cfg0, k0, v0) } else { (cfg0, k0, v0, cfg, k, v) };
                                frag.violation(json!({
                                    "property": ctx.prop, "kind": "casefile", "config": bad_cfg, "impl": bad_k, "op": cl, "case_line": c.encode(), "case": case_json(c), "haystack_len": c.encode().len(),
                                    "what": format!("{}: {} answers {} in configuration {}, but {} answers {} in configuration {}", cl, bad_k, bad_v, bad_cfg, ok_k, ok_v, ok_cfg),
                                    "expected": ok_v, "observed": bad_v, "signature": format!("{}|{}|{}|{}", ctx.prop, bad_cfg, bad_k, c.encode()),
                                }));
                                continue 'cases;
                            }
                        }
                    }
                }
                continue;
            }
            if !judge_values {
                continue;
            }
            for (k, v) in o.iter() {
                if let Some(Err(exp)) = expected(c, k, v) {
                    frag.violation(json!({
                        "property": ctx.prop, "kind": "casefile", "config": cfg, "impl": k, "op": k, "case_line": c.encode(), "case": case_json(c), "haystack_len": c.encode().len(),
                        "what": format!("configuration {} answers {} = {} but the naive oracle (and therefore every correct configuration) gives {}", cfg, k, v, exp),
                        "expected": exp, "observed": v, "signature": format!("{}|{}|{}|{}", ctx.prop, cfg, k, c.encode()),
                    }));
                    continue 'cases;
                }
            }
            if let Some((k, exp, v)) = pair_judgement(c, o) {
                frag.violation(json!({
                    "property": ctx.prop, "kind": "casefile", "config": cfg, "impl": k, "op": k, "case_line": c.encode(), "case": case_json(c), "haystack_len": c.encode().len(),
                    "what": format!("configuration {} answers {} = {}, expected {}", cfg, k, v, exp),
                    "expected": exp, "observed": v, "signature": format!("{}|{}|{}|{}", ctx.prop, cfg, k, c.encode()),
                }));
                continue 'cases;
            }
            // record-for-record equality on the keys both configurations have
            if let Some((cfg0, o0)) = first {
                for (k, v) in o.iter() {
                    if k.starts_with("cand") || k.ends_with(".cand") {
                        continue;
                    }
                    if let Some(v0) = o0.get(k) {
                        if v0 != v {
                            frag.violation(json!({
                                "property": ctx.prop, "kind": "casefile", "config": cfg, "impl": k, "op": k, "case_line": c.encode(), "case": case_json(c), "haystack_len": c.encode().len(),
                                "what": format!("{} = {} in configuration {} but {} in configuration {}", k, v, cfg, v0, cfg0),
                                "expected": v0, "observed": v, "signature": format!("{}|{}|{}|{}", ctx.prop, cfg, k, c.encode()),
                            }));
                            continue 'cases;
                        }
                    }
                }
            } else {
                first = Some((cfg.as_str(), o));
            }
        }
        if executed > 0 {
            frag.evaluations += executed;
            let nt = match c {
                Case::Byte { needles, hay, .. } => hay.len() >= 16 && oracle::naive_pos(needles, hay).is_some(),
                Case::Iter { needles, hay, .. } => oracle::naive_count(needles, hay) >= 2,
                Case::Sub { needle, hay, .. } => hay.len() >= 16 && needle.len() >= 2 && oracle::naive_find(hay, needle).is_some(),
                Case::Pair { needle, hay, .. } => oracle::naive_find(hay, needle).is_some(),
                Case::Eq { x, .. } => x.len() >= 4,
                Case::Hist(h) => h.before.len() + h.after.len() >= 4,
            };
            if nt && executed >= 2 {
                frag.nontrivial_hashes.insert(oracle::fnv(&[c.encode().as_bytes()]));
                if frag.want_sample() && c.encode().len() < 400 {
                    let mut s = case_json(c);
                    s["executed_in_configurations"] = json!(executed);
                    frag.sample(s);
                }
            }
            if let Case::Byte { hay, .. } = c {
                if hay.len() >= 2048 && executed >= 2 {
                    frag.class("byte search in a long periodic haystack (>= 2048 bytes), >= 2 configurations");
                }
            }
            frag.class(match c {
                Case::Byte { .. } => "byte search cases",
                Case::Iter { .. } => "byte iterator cases",
                Case::Sub { .. } => "substring cases",
                Case::Pair { .. } => "packed pair cases",
                Case::Eq { .. } => "is_equal/is_prefix/is_suffix cases",
                Case::Hist(_) => "finder history cases",
            });
        }
    }
    for (k, v) in per_cfg {
        frag.extra.insert(format!("cases_executed[{}]", k), json!(v));
    }
    if cases.len() >= 50_000 && ctx.prop == "C09" {
        // the natively executed file (the Miri files are small by construction)
        frag.require(&["byte search in a long periodic haystack (>= 2048 bytes), >= 2 configurations"]);
    }
    frag
}
