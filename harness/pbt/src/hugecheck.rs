//! Haystacks larger than 4 GiB: offsets, counts and accumulated prefilter
//! statistics that do not fit into 32 bits. The haystack is an anonymous
//! read-only-in-practice mapping of zero pages with a handful of planted
//! bytes, so it costs (almost) no resident memory; expectations follow from
//! the planted positions alone.

use crate::bytecheck::panic_msg;
use crate::ctx::Ctx;
use crate::report::Frag;
use serde_json::{json, Value};
use std::panic::{catch_unwind, AssertUnwindSafe};

const GIB: usize = 1 << 30;

struct Huge {
    ptr: *mut u8,
    len: usize,
}

impl Huge {
    fn new(len: usize) -> Option<Huge> {
        unsafe {
            let p = libc::mmap(std::ptr::null_mut(), len, libc::PROT_READ | libc::PROT_WRITE, libc::MAP_PRIVATE | libc::MAP_ANONYMOUS | libc::MAP_NORESERVE, -1, 0);
            if p == libc::MAP_FAILED {
                return None;
            }
            Some(Huge { ptr: p as *mut u8, len })
        }
    }
    fn slice(&self) -> &[u8] {
        unsafe { std::slice::from_raw_parts(self.ptr, self.len) }
    }
    fn put(&mut self, at: usize, bytes: &[u8]) {
        unsafe { std::ptr::copy_nonoverlapping(bytes.as_ptr(), self.ptr.add(at), bytes.len()) }
    }
}

impl Drop for Huge {
    fn drop(&mut self) {
        unsafe {
            libc::munmap(self.ptr as *mut _, self.len);
        }
    }
}

fn viol(ctx: &Ctx, op: &str, what: &str, expected: &str, observed: &str) -> Value {
    let config = ctx.config();
    json!({
        "property": ctx.prop, "kind": "huge", "config": config, "level": ctx.level, "impl": "top-level", "op": op,
        "haystack_len": 4 * GIB + 65536, "haystack_shown": "4 GiB + 64 KiB of zero bytes with a few planted bytes", "needles": "",
        "what": what, "expected": expected, "observed": observed, "signature": format!("{}|{}|huge|{}", ctx.prop, config, op),
    })
}

pub fn huge(ctx: &Ctx) -> Frag {
    let mut frag = ctx.frag("huge");
    let len = 4 * GIB + 65536;
    let mut h = match Huge::new(len) {
        Some(h) => h,
        None => {
            frag.notes.push("cannot map 4 GiB of address space: stage skipped".into());
            return frag;
        }
    };
    let judge_values = ctx.prop != "C14" && ctx.prop != "C05";
    // a 40-byte needle whose two rarest bytes ('Q' at 38, 'Z' at 39) sit at its end
    let mut needle = vec![b'e'; 40];
    needle[38] = b'Q';
    needle[39] = b'Z';
    let false_cand = 3 * GIB + 12345; // the pair bytes without the rest of the needle
    let real = 4 * GIB + 1000;
    let real2 = 4 * GIB + 3000;
    h.put(false_cand + 38, b"QZ");
    h.put(real, &needle);
    h.put(real2, &needle);
    h.put(4 * GIB + 5, b"\x07");
    h.put(17, b"\x07");
    let hay = h.slice();
    macro_rules! run {
        ($name:expr, $e:expr, $exp:expr) => {{
            frag.evaluations += 1;
            frag.nontrivial_enum += 1;
            match catch_unwind(AssertUnwindSafe(|| $e)) {
                Ok(got) => {
                    if judge_values && got != $exp {
                        frag.violation(viol(ctx, $name, "wrong answer on a haystack larger than 4 GiB", &format!("{:?}", $exp), &format!("{:?}", got)));
                    }
                }
                Err(p) => {
                    if ctx.prop != "C05" {
                        frag.violation(viol(ctx, $name, &format!("panic on a haystack larger than 4 GiB: {}", panic_msg(&p)), "no panic", &panic_msg(&p)));
                    }
                }
            }
        }};
    }
    // each property judges only the operations it is about; C14 / C09 run everything
    let p = ctx.prop.as_str();
    let all = matches!(p, "C14" | "C09" | "C05");
    if all || p == "C01" {
        run!("memchr", memchr::memchr(7, &hay[18..]), Some(4 * GIB + 5 - 18));
        run!("memchr2", memchr::memchr2(b'Z', 7, &hay[18..]), Some(false_cand + 39 - 18));
        run!("memchr3", memchr::memchr3(b'Z', b'e', 9, &hay[18..3 * GIB]), None::<usize>);
    }
    if all || p == "C02" {
        run!("memrchr", memchr::memrchr(7, &hay[..4 * GIB + 5]), Some(17usize));
        run!("memrchr(last)", memchr::memrchr(7, hay), Some(4 * GIB + 5));
        run!("memrchr2", memchr::memrchr2(b'Q', 7, &hay[..false_cand + 39]), Some(false_cand + 38));
    }
    if all || p == "C07" {
        run!("memchr_iter.count (zero bytes)", memchr::memchr_iter(0, hay).count(), len - 2 - 2 - 80);
    }
    if all || p == "C06" {
        run!("memchr_iter.next_back + next", {
            let mut it = memchr::memchr_iter(7, hay);
            (it.next_back(), it.next(), it.next())
        }, (Some(4 * GIB + 5), Some(17usize), None::<usize>));
    }
    if all || p == "C03" {
        run!("memmem::find", memchr::memmem::find(hay, &needle), Some(real));
        run!("Finder::find (Prefilter::None)", memchr::memmem::FinderBuilder::new().prefilter(memchr::memmem::Prefilter::None).build_forward(&needle).find(&hay[2 * GIB..]), Some(real - 2 * GIB));
        run!("find (2-byte needle, vector searcher)", memchr::memmem::find(hay, b"QZ"), Some(false_cand + 38));
    }
    if all || p == "C04" {
        run!("memmem::rfind", memchr::memmem::rfind(&hay[..real2], &needle), Some(real));
    }
    if all || p == "C08" {
        run!("find_iter", memchr::memmem::find_iter(hay, &needle).collect::<Vec<_>>(), vec![real, real2]);
        run!("find_iter.size_hint", {
            let it = memchr::memmem::find_iter(hay, &needle);
            let (lo, hi) = it.size_hint();
            lo <= 2 && hi.map_or(true, |h| h >= 2)
        }, true);
        run!("rfind_iter", memchr::memmem::rfind_iter(hay, &needle).collect::<Vec<_>>(), vec![real2, real]);
        run!("find_iter (empty needle, first items)", memchr::memmem::find_iter(&hay[..4 * GIB + 10], b"").skip(4 * GIB).take(3).collect::<Vec<_>>(), vec![4 * GIB, 4 * GIB + 1, 4 * GIB + 2]);
    }
    frag.sample(json!({"stage":"huge","haystack":"4 GiB + 64 KiB zero bytes; 0x07 at 17 and 4GiB+5; 'QZ' (the needle's rare pair) at 3GiB+12383; the 40-byte needle e^38 Q Z at 4GiB+1000 and 4GiB+3000",
        "calls":"memchr/memrchr/memchr2/memchr3, count of zero bytes, double-ended iteration, memmem::find/rfind, Finder without prefilter, find_iter/rfind_iter, size_hint"}));
    frag
}
