//! C13: the number of elementary steps (hook counter) of building a finder
//! and searching is bounded by a constant times haystack + needle length,
//! and does not grow quadratically when both are scaled.

use crate::ctx::Ctx;
use crate::journal;
use crate::report::{hex, show, unhex, Frag};
use crate::subgen::{self, fib_word, thue_morse, NeedleSpec, Piece};
use memchr::memmem::{self, Finder, FinderRev};
use proptest::prelude::*;
use serde_json::{json, Value};
use std::cell::RefCell;

/// Frozen constants (see DESIGN.md, C13): steps <= A*(n+m) + B.
pub const A: u64 = 96;
pub const B: u64 = 8192;
/// steps(4n, 4m) <= RATIO * steps(n, m) wherever steps(n, m) >= RATIO_MIN.
pub const RATIO: u64 = 6;
/// steps(16n, 16m) <= RATIO16 * steps(n, m) (linear cost gives 16, a term in n*m gives 256).
pub const RATIO16: u64 = 24;
pub const RATIO_MIN: u64 = 20_000;
pub const RATIO16_MIN: u64 = 4_000;

pub const FAMILIES: [&str; 12] = [
    "a^(m-1)b in (a^(m-1)c)^r",
    "a^(m-1)b in a^n",
    "random {e,t} needle (pair of two common bytes) in random {e,t} haystack",
    "u^k in (u^(k-1)u')^r",
    "q e^(m-2) q in q^n",
    "fibonacci needle in fibonacci haystack",
    "thue-morse needle in thue-morse haystack",
    "quiet prefix then dense false candidates",
    "empty needle",
    "(ab)^k c in (ab)^r",
    "random binary needle in random binary haystack",
    "a^m in (a^(m-1)b)^r",
];

pub const OPS: [&str; 6] = ["find", "rfind", "find_iter", "rfind_iter", "memmem::find", "memmem::rfind"];

fn xs(x: &mut u64) -> u64 {
    *x ^= *x << 13;
    *x ^= *x >> 7;
    *x ^= *x << 17;
    *x
}

pub fn build(family: u8, n: usize, m: usize, seed: u64) -> (Vec<u8>, Vec<u8>) {
    let m = m.max(2);
    let mut x = seed | 1;
    match family {
        0 => {
            let mut needle = vec![b'a'; m - 1];
            needle.push(b'b');
            let mut hay = Vec::with_capacity(n + m);
            while hay.len() < n {
                hay.extend(std::iter::repeat(b'a').take(m - 1));
                hay.push(b'c');
            }
            hay.truncate(n);
            (needle, hay)
        }
        1 => {
            let mut needle = vec![b'a'; m - 1];
            needle.push(b'b');
            (needle, vec![b'a'; n])
        }
        2 => {
            let needle: Vec<u8> = (0..m).map(|_| if xs(&mut x) & 1 == 0 { b'e' } else { b't' }).collect();
            let hay: Vec<u8> = (0..n).map(|_| if xs(&mut x) & 1 == 0 { b'e' } else { b't' }).collect();
            (needle, hay)
        }
        3 => {
            let ul = 2 + (seed % 7) as usize;
            let u: Vec<u8> = (0..ul).map(|i| b"xyzxxyz"[(i + seed as usize) % 7]).collect();
            let needle: Vec<u8> = (0..m).map(|i| u[i % ul]).collect();
            let mut hay = Vec::with_capacity(n + m);
            while hay.len() < n {
                let start = hay.len();
                hay.extend_from_slice(&needle[..m - 1]);
                hay.push(needle[m - 1] ^ 1);
                let _ = start;
            }
            hay.truncate(n);
            (needle, hay)
        }
        4 => {
            let mut needle = vec![b'e'; m];
            needle[0] = b'q';
            needle[m - 1] = b'q';
            (needle, vec![b'q'; n])
        }
        5 => (fib_word(b'a', b'b', m), fib_word(b'a', b'b', n)),
        6 => (thue_morse(b'a', b'b', m), thue_morse(b'a', b'b', n)),
        7 => {
            // rare pair bytes 'Q' (offset 0) and 'Z' (offset 1), rest common
            let mut needle = vec![b'e'; m];
            needle[0] = b'Q';
            needle[1] = b'Z';
            let mut hay = vec![b'.'; n];
            let mut i = n / 2;
            while i + 1 < n {
                hay[i] = b'Q';
                hay[i + 1] = b'Z';
                i += 2 + (m > 2) as usize;
            }
            (needle, hay)
        }
        8 => (Vec::new(), vec![b'x'; n]),
        9 => {
            let mut needle: Vec<u8> = (0..m - 1).map(|i| if i % 2 == 0 { b'a' } else { b'b' }).collect();
            needle.push(b'c');
            let hay: Vec<u8> = (0..n).map(|i| if i % 2 == 0 { b'a' } else { b'b' }).collect();
            (needle, hay)
        }
        10 => {
            let needle: Vec<u8> = (0..m).map(|_| if xs(&mut x) & 1 == 0 { b'a' } else { b'b' }).collect();
            let hay: Vec<u8> = (0..n).map(|_| if xs(&mut x) & 1 == 0 { b'a' } else { b'b' }).collect();
            (needle, hay)
        }
        _ => {
            let needle = vec![b'a'; m];
            let mut hay = Vec::with_capacity(n + m);
            while hay.len() < n {
                hay.extend(std::iter::repeat(b'a').take(m - 1));
                hay.push(b'b');
            }
            hay.truncate(n);
            (needle, hay)
        }
    }
}

fn steps_reset() {
    #[cfg(memchr_verif)]
    memchr::verif::steps_reset();
}

fn steps() -> u64 {
    #[cfg(memchr_verif)]
    {
        return memchr::verif::steps();
    }
    #[allow(unreachable_code)]
    0
}

/// Steps of (build finder + operation).
pub fn measure(op: u8, needle: &[u8], hay: &[u8]) -> (u64, usize) {
    steps_reset();
    let k = match op {
        0 => Finder::new(needle).find(hay).map_or(0, |_| 1),
        1 => FinderRev::new(needle).rfind(hay).map_or(0, |_| 1),
        2 => Finder::new(needle).find_iter(hay).count(),
        3 => FinderRev::new(needle).rfind_iter(hay).count(),
        4 => memmem::find(hay, needle).map_or(0, |_| 1),
        _ => memmem::rfind(hay, needle).map_or(0, |_| 1),
    };
    (steps(), k)
}

fn step_viol(ctx: &Ctx, what: &str, family: u8, op: u8, n: usize, m: usize, seed: u64, needle: &[u8], hay: &[u8], detail: Value) -> Value {
    let config = ctx.config();
    json!({
        "property": ctx.prop, "kind": "steps", "config": config, "level": ctx.level, "impl": "memmem", "op": OPS[op as usize],
        "family": family, "family_name": FAMILIES.get(family as usize).copied().unwrap_or("generated family (needle spec + haystack tile, see detail)"), "n": n, "m": m, "family_seed": seed,
        "needles": show(needle), "haystack_shown": show(hay), "haystack_len": n + m,
        "needle": if needle.len() <= 64 { hex(needle) } else { String::new() },
        "detail": detail, "what": what, "expected": format!("steps <= {}*(n+m)+{}, steps(4n,4m) <= {}*steps(n,m), steps(16n,16m) <= {}*steps(n,m)", A, B, RATIO, RATIO16), "observed": what,
        "signature": format!("{}|{}|steps|{}|{}|n={}|m={}", ctx.prop, config, family, OPS[op as usize], n, m),
    })
}

/// Judge one (family, op, n, m): the absolute bound at (n, m) and, when
/// `scale`, at (4n, 4m) together with the growth ratio.
/// The scaling relation is only meaningful where (n, m) and (4n, 4m) are
/// served by the same strategy and the operation traverses the whole
/// haystack at both sizes: needles of at least 65 bytes (Two-Way at every CPU
/// level, whatever the vector searcher's needle-length cap is retuned to),
/// families without an occurrence (any operation) or self-similar words with
/// a complete iterator traversal.
pub fn scalable(family: u8, op: u8, m: usize) -> bool {
    if m < 65 {
        return false;
    }
    match family {
        0 | 1 | 3 | 4 | 7 | 9 | 11 => true,
        5 | 6 => op == 2 || op == 3,
        _ => false,
    }
}

pub fn judge(ctx: &Ctx, family: u8, op: u8, n: usize, m: usize, seed: u64, scale: bool, maxes: &mut Maxes) -> Option<Value> {
    let scale = scale && scalable(family, op, m);
    let (needle, hay) = build(family, n, m, seed);
    let (s1, _) = measure(op, &needle, &hay);
    let nm = (needle.len() + hay.len()) as u64;
    maxes.note(family, s1, nm);
    if s1 > A * nm + B {
        return Some(step_viol(ctx, &format!("{} steps for n+m = {} ({:.1} per byte) exceeds {}*(n+m)+{}", s1, nm, s1 as f64 / nm as f64, A, B), family, op, hay.len(), needle.len(), seed, &needle, &hay, json!({"steps": s1})));
    }
    if scale {
        let (needle4, hay4) = build(family, 4 * n, 4 * m, seed);
        let (s4, _) = measure(op, &needle4, &hay4);
        let nm4 = (needle4.len() + hay4.len()) as u64;
        maxes.note(family, s4, nm4);
        if s4 > A * nm4 + B {
            return Some(step_viol(ctx, &format!("{} steps for n+m = {} ({:.1} per byte) exceeds {}*(n+m)+{}", s4, nm4, s4 as f64 / nm4 as f64, A, B), family, op, hay4.len(), needle4.len(), seed, &needle4, &hay4, json!({"steps": s4})));
        }
        if s1 >= RATIO_MIN {
            let r = s4 as f64 / s1 as f64;
            if r > maxes.ratio {
                maxes.ratio = r;
                maxes.ratio_at = format!("{} {} n={} m={}", FAMILIES[family as usize], OPS[op as usize], n, m);
            }
            maxes.ratios += 1;
            if s4 > RATIO * s1 {
                return Some(step_viol(ctx, &format!("steps grow x{:.1} ({} -> {}) when haystack and needle grow x4 (linear cost gives x4, quadratic x16)", r, s1, s4), family, op, hay.len(), needle.len(), seed, &needle, &hay, json!({"steps_n_m": s1, "steps_4n_4m": s4})));
            }
        }
        // a second, longer lever for super-linear terms with a small coefficient
        if s1 >= RATIO16_MIN && n <= 16384 && m <= 256 {
            let (needle16, hay16) = build(family, 16 * n, 16 * m, seed);
            let (s16, _) = measure(op, &needle16, &hay16);
            let nm16 = (needle16.len() + hay16.len()) as u64;
            maxes.note(family, s16, nm16);
            let r16 = s16 as f64 / s1 as f64;
            if r16 > maxes.ratio16 {
                maxes.ratio16 = r16;
                maxes.ratio16_at = format!("{} {} n={} m={}", FAMILIES[family as usize], OPS[op as usize], n, m);
            }
            if s16 > A * nm16 + B {
                return Some(step_viol(ctx, &format!("{} steps for n+m = {} ({:.1} per byte) exceeds {}*(n+m)+{}", s16, nm16, s16 as f64 / nm16 as f64, A, B), family, op, hay16.len(), needle16.len(), seed, &needle16, &hay16, json!({"steps": s16})));
            }
            if s16 > RATIO16 * s1 {
                return Some(step_viol(ctx, &format!("steps grow x{:.1} ({} -> {}) when haystack and needle grow x16 (linear cost gives x16, quadratic x256)", r16, s1, s16), family, op, hay.len(), needle.len(), seed, &needle, &hay, json!({"steps_n_m": s1, "steps_16n_16m": s16})));
            }
        }
    }
    None
}

pub struct Maxes {
    pub per_byte: f64,
    pub per_byte_at: String,
    pub ratio: f64,
    pub ratio_at: String,
    pub ratios: u64,
    pub ratio16: f64,
    pub ratio16_at: String,
}

impl Maxes {
    pub fn new() -> Maxes {
        Maxes { per_byte: 0.0, per_byte_at: String::new(), ratio: 0.0, ratio_at: String::new(), ratios: 0, ratio16: 0.0, ratio16_at: String::new() }
    }
    fn note(&mut self, family: u8, s: u64, nm: u64) {
        if nm >= 512 {
            let pb = s as f64 / nm as f64;
            if pb > self.per_byte {
                self.per_byte = pb;
                self.per_byte_at = format!("{} (n+m={})", FAMILIES[family as usize], nm);
            }
        }
    }
}

pub fn steps_stage(ctx: &Ctx) -> Frag {
    let mut frag = ctx.frag("steps-proptest");
    if !mvcore::cfgs::cfg_verif() {
        frag.notes.push("step counter hook absent".into());
        return frag;
    }
    frag.require(&["scaled pair evaluated (steps(n,m) >= RATIO_MIN)", "needle longer than 32 bytes", "needle of 2..=32 bytes", "n >= 64 KiB"]);
    let cases = ctx.n(3_000, 40_000) as u32;
    let max_n_idx = if ctx.thorough { 6 } else { 5 };
    struct St {
        frag: Frag,
        failed: Option<Value>,
        maxes: Maxes,
    }
    let st = RefCell::new(St { frag, failed: None, maxes: Maxes::new() });
    let strat = (
        0u8..FAMILIES.len() as u8,
        0u8..OPS.len() as u8,
        0usize..max_n_idx,
        prop_oneof![2 => 2usize..=32, 1 => 33usize..=64, 3 => 65usize..=256, 2 => 257usize..=1024],
        any::<u64>(),
        prop::bool::weighted(0.8),
    );
    let mut runner = crate::ctx::runner(ctx.stream_seed("steps-proptest"), cases);
    let res = runner.run(&strat, |(family, op, ni, m, seed, scale)| {
        let mut s = st.borrow_mut();
        let s = &mut *s;
        let n = [256usize, 1024, 4096, 16384, 65536, 262144][ni];
        // the scaled instance is (4n, 4m): keep it within 1 MiB / 4 KiB
        let scale = scale && n <= 65536;
        journal::set_ctx(&format!("{{\"stage\":\"steps\",\"family\":{},\"op\":{},\"n\":{},\"m\":{},\"seed\":{}}}", family, op, n, m, seed));
        let before = s.maxes.ratios;
        let r = judge(ctx, family, op, n, m, seed, scale, &mut s.maxes);
        if s.failed.is_none() {
            s.frag.evaluations += 1 + scale as u64;
            s.frag.class(&format!("family: {}", FAMILIES[family as usize]));
            s.frag.class(if m > 32 { "needle longer than 32 bytes" } else { "needle of 2..=32 bytes" });
            if n >= 65536 || (scale && 4 * n >= 65536) {
                s.frag.class("n >= 64 KiB");
            }
            if s.maxes.ratios > before {
                s.frag.class("scaled pair evaluated (steps(n,m) >= RATIO_MIN)");
            }
            if n >= 4096 {
                s.frag.nontrivial_hashes.insert(mvcore::oracle::fnv(&[&[family, op], &n.to_le_bytes(), &m.to_le_bytes(), &seed.to_le_bytes()]));
            }
            if s.frag.want_sample() && n >= 4096 {
                let (needle, hay) = build(family, n, m, seed);
                let (st1, k) = measure(op, &needle, &hay);
                s.frag.sample(json!({"stage":"steps","family":FAMILIES[family as usize],"op":OPS[op as usize],"n":hay.len(),"m":needle.len(),"steps":st1,"steps_per_byte":st1 as f64/(hay.len()+needle.len()) as f64,"matches":k}));
            }
        }
        if let Some(v) = r {
            s.failed = Some(v);
            return Err(TestCaseError::fail("violation"));
        }
        Ok(())
    });
    let mut s = st.into_inner();
    if let Err(e) = &res {
        if let Some(v) = s.failed.take() {
            s.frag.violation(v);
        } else {
            s.frag.notes.push(format!("proptest aborted without a recorded violation: {}", e.to_string().chars().take(500).collect::<String>()));
        }
    }
    s.frag.extra.insert("max_steps_per_byte".into(), json!(s.maxes.per_byte));
    s.frag.extra.insert("max_ratio_4x".into(), json!(s.maxes.ratio));
    s.frag.extra.insert("max_ratio_16x".into(), json!(s.maxes.ratio16));
    s.frag.notes.push(format!("max steps per byte of (n+m): {:.2} at {}; max growth for x4: {:.2} at {}; max growth for x16: {:.2} at {}; bounds A={} B={} RATIO={} RATIO16={}", s.maxes.per_byte, s.maxes.per_byte_at, s.maxes.ratio, s.maxes.ratio_at, s.maxes.ratio16, s.maxes.ratio16_at, A, B, RATIO, RATIO16));
    s.frag
}

/// Exhaustive small binary strings: the absolute bound only.
pub fn steps_exhaustive(ctx: &Ctx) -> Frag {
    let mut frag = ctx.frag("steps-exhaustive");
    if !mvcore::cfgs::cfg_verif() {
        return frag;
    }
    let (nmax, hmax) = if ctx.thorough { (8, 14) } else { (7, 12) };
    let mut maxs = 0u64;
    let mut group = 0;
    'outer: for nl in 0..=nmax {
        for nb in 0u32..(1 << nl) {
            group += 1;
            if !ctx.mine(group) {
                continue;
            }
            let needle: Vec<u8> = (0..nl).map(|i| if nb >> i & 1 == 1 { b'b' } else { b'a' }).collect();
            for hl in 0..=hmax {
                for hb in 0u32..(1 << hl) {
                    let hay: Vec<u8> = (0..hl).map(|i| if hb >> i & 1 == 1 { b'b' } else { b'a' }).collect();
                    for op in 0..4u8 {
                        let (s, _) = measure(op, &needle, &hay);
                        frag.evaluations += 1;
                        maxs = maxs.max(s);
                        if s > A * (nl + hl) as u64 + B {
                            frag.violation(step_viol(ctx, &format!("{} steps for n+m = {}", s, nl + hl), 10, op, hl, nl, 0, &needle, &hay, json!({"steps": s})));
                            break 'outer;
                        }
                    }
                    if nl >= 2 && hl >= nl {
                        frag.nontrivial_enum += 1;
                    }
                }
            }
        }
    }
    frag.extra.insert("max_steps_small".into(), json!(maxs));
    frag.sample(json!({"stage":"steps-exhaustive","enumerated":format!("every binary needle up to {} x every binary haystack up to {} x find/rfind/find_iter/rfind_iter", nmax, hmax),"max_steps_observed":maxs}));
    frag
}

pub fn replay(ctx: &Ctx, v: &Value) -> Option<Value> {
    let family = v["family"].as_u64()? as u8;
    let opn = v["op"].as_str()?;
    let op = OPS.iter().position(|o| *o == opn)? as u8;
    if family == 255 {
        let g = &v["detail"]["gen"];
        let spec = NeedleSpec {
            kind: g["kind"].as_u64()? as u8,
            len: g["len"].as_u64()? as usize,
            a: g["a"].as_u64()? as u8,
            b: g["b"].as_u64()? as u8,
            ulen: g["ulen"].as_u64()? as usize,
            bits: g["bits"].as_str()?.parse().ok()?,
        };
        let pieces: Vec<Piece> = g["pieces"].as_array()?.iter().filter_map(|x| parse_piece(x.as_str()?)).collect();
        return judge_generated(ctx, &spec, &pieces, g["base_n"].as_u64()? as usize, op);
    }
    let n = v["n"].as_u64()? as usize;
    let m = v["m"].as_u64()? as usize;
    let seed = v["family_seed"].as_u64().unwrap_or(0);
    let nd = unhex(v["needle"].as_str().unwrap_or(""));
    let _ = nd;
    let mut mx = Maxes::new();
    judge(ctx, family, op, n, m, seed, n <= 65536, &mut mx)
}


// ---------------------------------------------------------------------------
// generated families: a structured needle and a haystack tile, both scaled by 1, 4 and 16

/// A generated family violates the bound when its cost per byte of (n+m) keeps growing over two
/// consecutive x4 scale steps and ends at CAP or more (see `growth_trend`). On the unchanged tree the cost
/// per byte of almost every instance lies between ~0.05 and ~5 (regime changes - adaptive prefilter going
/// inert, vector searcher vs Two-Way - move it within that band, which is why growth below CAP is not
/// judged), single instances reach 12; a term in n*m keeps growing by x4 per step.
pub const CAP: f64 = 12.0;
/// growth of the cost per byte over ONE x4 scale step that counts as "growing" (a term in n*m gives 4,
/// n*sqrt(m) gives 2); the trend must hold over TWO consecutive steps (scales k, 4k, 16k)
pub const GROW: f64 = 1.8;
pub const GROW_MIN_STEPS: u64 = 60_000;

/// `base_n` carries the haystack shape in its bits 40.. (so that it travels through the replay file with
/// it): 0 = the tile everywhere, 1 = the tile in the first half and a foreign byte in the second (what a
/// forward traversal leaves behind it is quiet), 2 = the mirror image.
const SHAPE_SHIFT: u32 = 40;
fn split_base(base_n: usize) -> (usize, u8) {
    (base_n & ((1usize << SHAPE_SHIFT) - 1), (base_n >> SHAPE_SHIFT) as u8)
}

fn scaled(spec: &NeedleSpec, pieces: &[Piece], base_n: usize, k: usize) -> (Vec<u8>, Vec<u8>) {
    let (base_n, shape) = split_base(base_n);
    let mut sp = spec.clone();
    // needles below 65 bytes are NOT scaled (1-byte needles, the vector searchers, Rabin-Karp: scaling the
    // needle would change the strategy); only the haystack grows and the cost per byte must not
    sp.len = if spec.len >= 65 { spec.len * k } else { spec.len };
    let needle = subgen::build_needle(&sp);
    // pieces with explicit lengths scale with k as well
    let ps: Vec<Piece> = pieces
        .iter()
        .map(|p| match p {
            Piece::Foreign(b, n) => Piece::Foreign(*b, (*n as usize * k).min(60000) as u16),
            Piece::NeedleByteRun(f, n) => Piece::NeedleByteRun(*f, (*n as usize * k).min(60000) as u16),
            Piece::Noise(n, s) => Piece::Noise((*n as usize * k).min(60000) as u16, *s),
            Piece::LongQuiet(n) => Piece::LongQuiet((*n as usize * k).min(60000) as u16),
            other => other.clone(),
        })
        .collect();
    let tile = subgen::build_haystack(&needle, &ps, 1 << 22);
    let total = base_n * k;
    let mut hay = Vec::with_capacity(total + tile.len());
    if tile.is_empty() {
        hay.resize(total, b'.');
    } else {
        while hay.len() < total {
            hay.extend_from_slice(&tile);
        }
        hay.truncate(total);
    }
    if shape == 1 || shape == 2 {
        let q = subgen::foreign_byte(&needle, 0x00);
        let (from, to) = if shape == 1 { (total / 2, total) } else { (0, total / 2) };
        for b in hay[from..to].iter_mut() {
            *b = q;
        }
    }
    (needle, hay)
}

/// The trend criterion for generated families. `c[i]` = cost per byte at `scales[i]` (x4 apart), `stp[i]` = steps.
/// A violation is a SUSTAINED growth: for some i, c[i+1] >= GROW*c[i] and c[i+2] >= GROW*c[i+1], ending at
/// or above CAP steps per byte with at least GROW_MIN_STEPS steps. One expensive instance is not a trend:
/// the needle of every scale is a new instance of its family, and the crate's constant legitimately
/// depends on the instance (on the unchanged tree a single instance reached 12.15 steps per byte between
/// two instances at ~1: the portable prefilter re-scans up to index1 <= 254 bytes per call).
fn growth_trend(c: &[f64], stp: &[u64]) -> Option<usize> {
    for i in 0..c.len().saturating_sub(2) {
        if c[i + 2] >= CAP && stp[i + 2] >= GROW_MIN_STEPS && c[i + 1] >= GROW * c[i] && c[i + 2] >= GROW * c[i + 1] {
            return Some(i + 2);
        }
    }
    None
}

fn gen_json(spec: &NeedleSpec, pieces: &[Piece], base_n: usize) -> Value {
    json!({"kind": spec.kind, "len": spec.len, "a": spec.a, "b": spec.b, "ulen": spec.ulen, "bits": spec.bits.to_string(), "base_n": base_n,
           "pieces": pieces.iter().map(|p| format!("{:?}", p)).collect::<Vec<_>>()})
}

fn parse_piece(s: &str) -> Option<Piece> {
    let (name, args) = match s.find('(') {
        Some(i) => (&s[..i], s[i + 1..s.len() - 1].split(',').filter_map(|x| x.trim().parse::<u64>().ok()).collect::<Vec<u64>>()),
        None => (s, Vec::new()),
    };
    let a = |i: usize| args.get(i).copied().unwrap_or(0);
    Some(match name {
        "Needle" => Piece::Needle,
        "Prefix" => Piece::Prefix(a(0) as u16),
        "Suffix" => Piece::Suffix(a(0) as u16),
        "Periods" => Piece::Periods(a(0) as u8),
        "NearMiss" => Piece::NearMiss(a(0) as u16, a(1) as u8),
        "HashEqual" => Piece::HashEqual(a(0) as u16),
        "HashBlind" => Piece::HashBlind(a(0) as u16),
        "RareRun" => Piece::RareRun(a(0) as u8),
        "Foreign" => Piece::Foreign(a(0) as u8, a(1) as u16),
        "Noise" => Piece::Noise(a(0) as u16, a(1)),
        "FalseCandidates" => Piece::FalseCandidates(a(0) as u8),
        "LongQuiet" => Piece::LongQuiet(a(0) as u16),
        "Rotation" => Piece::Rotation(a(0) as u16),
        "NeedleByteRun" => Piece::NeedleByteRun(a(0) as u16, a(1) as u16),
        "SuffixPeriods" => Piece::SuffixPeriods(a(0) as u8),
        _ => return None,
    })
}

/// Re-judge one generated family (replay).
fn judge_generated(ctx: &Ctx, spec: &NeedleSpec, pieces: &[Piece], base_n: usize, op: u8) -> Option<Value> {
    let trace = std::env::var("MV_STEPS_TRACE").is_ok();
    let scales: Vec<usize> = if trace { vec![1, 2, 4, 8, 16, 32, 64] } else if split_base(base_n).0 <= 4096 && spec.len <= 128 { vec![1, 4, 16, 64] } else { vec![1, 4, 16] };
    let mut c: Vec<f64> = Vec::new();
    let mut stp: Vec<u64> = Vec::new();
    for k in scales.iter() {
        let (needle, hay) = scaled(spec, pieces, base_n, *k);
        let (steps, _) = measure(op, &needle, &hay);
        let nm = (needle.len() + hay.len()) as u64;
        let ck = steps as f64 / nm as f64;
        c.push(ck);
        if trace {
            steps_reset();
            let f = Finder::new(&needle);
            let cons = self::steps();
            steps_reset();
            let cnt = f.find_iter(&hay).count();
            let it = self::steps();
            let f2 = memchr::memmem::FinderBuilder::new().prefilter(memchr::memmem::Prefilter::None).build_forward(&needle);
            steps_reset();
            let _ = f2.find_iter(&hay).count();
            let nopre = self::steps();
            eprintln!("trace: scale {} n {} m {} steps {} per byte {:.2}; construction {} find_iter {} ({} matches) find_iter without prefilter {}", k, hay.len(), needle.len(), steps, ck, cons, it, cnt, nopre);
            continue;
        }
        if steps > A * nm + B {
            return Some(step_viol(ctx, &format!("{} steps for n+m = {} ({:.1} per byte) exceeds {}*(n+m)+{}", steps, nm, ck, A, B), 255, op, hay.len(), needle.len(), 0, &needle, &hay, json!({"gen": gen_json(spec, pieces, base_n)})));
        }
        stp.push(steps);
        if let Some(_) = growth_trend(&c, &stp) {
            return Some(step_viol(ctx, &format!("cost per byte keeps growing with the input: {:?} steps per byte at scales {:?} (x{} or more per x4 step, twice in a row, reaching {} per byte)", c.iter().map(|x| (x * 100.0).round() / 100.0).collect::<Vec<_>>(), &scales[..c.len()], GROW, CAP), 255, op, hay.len(), needle.len(), 0, &needle, &hay, json!({"gen": gen_json(spec, pieces, base_n)})));
        }
    }
    None
}

pub fn steps_generic(ctx: &Ctx) -> Frag {
    let mut frag = ctx.frag("steps-generated");
    if !mvcore::cfgs::cfg_verif() {
        return frag;
    }
    let cases = ctx.n(4_000, 60_000) as u32;
    struct St {
        frag: Frag,
        failed: Option<Value>,
        max_min_ratio: f64,
        at: String,
        max_per_byte: f64,
        closest: f64,
        closest_at: String,
    }
    let st = RefCell::new(St { frag, failed: None, max_min_ratio: 0.0, at: String::new(), max_per_byte: 0.0, closest: 0.0, closest_at: String::new() });
    let strat = (
        subgen::needle_spec(),
        prop_oneof![2 => 1usize..=3, 2 => 4usize..=64, 6 => 65usize..=256],
        prop::collection::vec(subgen::piece(), 1..=5),
        prop::sample::select(vec![4096usize, 8192, 16384]),
        2u8..4, // complete traversals only: find_iter / rfind_iter
        prop::sample::select(vec![0u8, 0, 1, 2, 3]), // 3 = needle-heavy: a long needle and a haystack of twice its length
    );
    let mut runner = crate::ctx::runner_shrink(ctx.stream_seed("steps-generated"), cases, 48);
    let res = runner.run(&strat, |(mut spec, len, pieces, base_n, op, shape)| {
        let mut s = st.borrow_mut();
        let s = &mut *s;
        // needle-heavy: construction cost (suffix / period computations) dominates
        let (len, base_n, shape) = if shape == 3 { let l = 1024 + (len * 37) % 3072; (l, 2 * l, 0u8) } else { (len, base_n, shape) };
        spec.len = len;
        let plain_n = base_n;
        let base_n = base_n | ((shape as usize) << SHAPE_SHIFT);
        journal::set_ctx(&format!("{{\"stage\":\"steps-generated\",\"kind\":{},\"len\":{},\"base_n\":{}}}", spec.kind, len, base_n));
        let scales: Vec<usize> = if plain_n <= 4096 && len <= 128 { vec![1, 4, 16, 64] } else { vec![1, 4, 16] };
        let mut c: Vec<f64> = Vec::new();
        let mut stp: Vec<u64> = Vec::new();
        let mut bad: Option<Value> = None;
        for k in scales.iter() {
            let (needle, hay) = scaled(&spec, &pieces, base_n, *k);
            let (steps, _) = measure(op, &needle, &hay);
            let nm = (needle.len() + hay.len()) as u64;
            stp.push(steps);
            let ck = steps as f64 / nm as f64;
            c.push(ck);
            if ck > s.max_per_byte {
                s.max_per_byte = ck;
            }
            if steps > A * nm + B && bad.is_none() {
                bad = Some(step_viol(ctx, &format!("{} steps for n+m = {} ({:.1} per byte) exceeds {}*(n+m)+{}", steps, nm, ck, A, B), 255, op, hay.len(), needle.len(), 0, &needle, &hay,
                    json!({"steps": steps, "gen": gen_json(&spec, &pieces, base_n), "scale": k})));
            }
            if bad.is_some() {
                break; // the larger scales of a family that already failed would only cost time
            }
            if bad.is_none() && growth_trend(&c, &stp).is_some() {
                bad = Some(step_viol(ctx, &format!("cost per byte keeps growing with the input: {:?} steps per byte at scales {:?} of (n = {}, m = {}) (x{} or more per x4 step, twice in a row, reaching {} per byte)", c.iter().map(|x| (x * 100.0).round() / 100.0).collect::<Vec<_>>(), &scales[..c.len()], plain_n, len, GROW, CAP),
                    255, op, hay.len(), needle.len(), 0, &needle, &hay, json!({"gen": gen_json(&spec, &pieces, base_n), "steps": stp.clone(), "scale": k})));
            }
        }
        // how close the unchanged tree comes to the trend criterion: the smaller of the two growth factors
        // of any window that ends at half the cap or more
        for i in 0..c.len().saturating_sub(2) {
            if c[i + 2] >= CAP / 2.0 && c[i] > 0.0 && c[i + 1] > 0.0 {
                let g = (c[i + 1] / c[i]).min(c[i + 2] / c[i + 1]);
                if g > s.closest {
                    s.closest = g;
                    s.closest_at = format!("{:?} (kind {} len {} base_n {} shape {})", c, subgen::NEEDLE_KINDS[spec.kind as usize], len, plain_n, shape);
                }
            }
        }
        let last = c.len() - 1;
        if stp[last] >= GROW_MIN_STEPS {
            let g = if c[0] > 0.0 { c[last] / c[0] } else { 0.0 };
            if c[last] > s.max_min_ratio {
                s.max_min_ratio = c[last];
                s.at = format!("needle kind {} len {} base_n {} shape {} op {} pieces {:?}: per-byte cost {:?} (x{:.1})", subgen::NEEDLE_KINDS[spec.kind as usize], len, plain_n, shape, OPS[op as usize], pieces, c, g);
            }
        }
        if s.failed.is_none() {
            s.frag.evaluations += c.len() as u64;
            s.frag.class(&format!("needle kind: {}", subgen::NEEDLE_KINDS[spec.kind as usize]));
            if stp[last] >= GROW_MIN_STEPS {
                s.frag.class("growth evaluated (>= 60000 steps at the largest scale)");
                s.frag.nontrivial_hashes.insert(mvcore::oracle::fnv(&[format!("{:?}{:?}{}{}", spec, pieces, base_n, op).as_bytes()]));
            }
            if s.frag.want_sample() && stp[last] >= GROW_MIN_STEPS {
                s.frag.sample(json!({"stage":"steps-generated","needle_kind":subgen::NEEDLE_KINDS[spec.kind as usize],"needle_len_at_scale_1":len,"haystack_len_at_scale_1":plain_n,"haystack_shape":(["tile everywhere","tile then quiet half","quiet half then tile"][shape as usize % 3]),"scales":scales.clone(),
                    "tile":format!("{:?}", pieces),"op":OPS[op as usize],"steps_per_byte":c.clone()}));
            }
        }
        if let Some(v) = bad {
            s.failed = Some(v);
            return Err(TestCaseError::fail("violation"));
        }
        Ok(())
    });
    let mut s = st.into_inner();
    if let Err(e) = &res {
        if let Some(v) = s.failed.take() {
            s.frag.violation(v);
        } else {
            s.frag.notes.push(format!("proptest aborted without a recorded violation: {}", e.to_string().chars().take(500).collect::<String>()));
        }
    }
    s.frag.require(&["growth evaluated (>= 60000 steps at the largest scale)"]);
    s.frag.extra.insert("max_steps_per_byte_at_largest_scale".into(), json!(s.max_min_ratio));
    s.frag.extra.insert("max_steps_per_byte".into(), json!(s.max_per_byte));
    s.frag.extra.insert("closest_to_growth_trend".into(), json!({"smaller_growth_factor_of_a_window_ending_at_half_the_cap": s.closest, "at": s.closest_at}));
    s.frag.notes.push(format!("generated families: largest cost per byte at the largest scale = {:.2} ({}); a violation needs growth by >= x{} over two consecutive x4 steps ending at >= {} per byte", s.max_min_ratio, s.at, GROW, CAP));
    s.frag
}
