//! C13: the number of elementary steps (hook counter) of building a finder
//! and searching is bounded by a constant times haystack + needle length,
//! and does not grow quadratically when both are scaled.

use crate::ctx::Ctx;
use crate::journal;
use crate::report::{hex, show, unhex, Frag};
use crate::subgen::{fib_word, thue_morse};
use memchr::memmem::{self, Finder, FinderRev};
use proptest::prelude::*;
use serde_json::{json, Value};
use std::cell::RefCell;

/// Frozen constants (see DESIGN.md, C13): steps <= A*(n+m) + B.
pub const A: u64 = 96;
pub const B: u64 = 8192;
/// steps(4n, 4m) <= RATIO * steps(n, m) wherever steps(n, m) >= RATIO_MIN.
pub const RATIO: u64 = 6;
/// steps(16n, 16m) <= RATIO16 * steps(n, m) (linear cost gives 16, a term in n*m gives 256).
pub const RATIO16: u64 = 24;
pub const RATIO_MIN: u64 = 20_000;
pub const RATIO16_MIN: u64 = 4_000;

pub const FAMILIES: [&str; 12] = [
    "a^(m-1)b in (a^(m-1)c)^r",
    "a^(m-1)b in a^n",
    "random {e,t} needle (pair of two common bytes) in random {e,t} haystack",
    "u^k in (u^(k-1)u')^r",
    "q e^(m-2) q in q^n",
    "fibonacci needle in fibonacci haystack",
    "thue-morse needle in thue-morse haystack",
    "quiet prefix then dense false candidates",
    "empty needle",
    "(ab)^k c in (ab)^r",
    "random binary needle in random binary haystack",
    "a^m in (a^(m-1)b)^r",
];

pub const OPS: [&str; 6] = ["find", "rfind", "find_iter", "rfind_iter", "memmem::find", "memmem::rfind"];

fn xs(x: &mut u64) -> u64 {
    *x ^= *x << 13;
    *x ^= *x >> 7;
    *x ^= *x << 17;
    *x
}

pub fn build(family: u8, n: usize, m: usize, seed: u64) -> (Vec<u8>, Vec<u8>) {
    let m = m.max(2);
    let mut x = seed | 1;
    match family {
        0 => {
            let mut needle = vec![b'a'; m - 1];
            needle.push(b'b');
            let mut hay = Vec::with_capacity(n + m);
            while hay.len() < n {
                hay.extend(std::iter::repeat(b'a').take(m - 1));
                hay.push(b'c');
            }
            hay.truncate(n);
            (needle, hay)
        }
        1 => {
            let mut needle = vec![b'a'; m - 1];
            needle.push(b'b');
            (needle, vec![b'a'; n])
        }
        2 => {
            let needle: Vec<u8> = (0..m).map(|_| if xs(&mut x) & 1 == 0 { b'e' } else { b't' }).collect();
            let hay: Vec<u8> = (0..n).map(|_| if xs(&mut x) & 1 == 0 { b'e' } else { b't' }).collect();
            (needle, hay)
        }
        3 => {
            let ul = 2 + (seed % 7) as usize;
            let u: Vec<u8> = (0..ul).map(|i| b"xyzxxyz"[(i + seed as usize) % 7]).collect();
            let needle: Vec<u8> = (0..m).map(|i| u[i % ul]).collect();
            let mut hay = Vec::with_capacity(n + m);
            while hay.len() < n {
                let start = hay.len();
                hay.extend_from_slice(&needle[..m - 1]);
                hay.push(needle[m - 1] ^ 1);
                let _ = start;
            }
            hay.truncate(n);
            (needle, hay)
        }
        4 => {
            let mut needle = vec![b'e'; m];
            needle[0] = b'q';
            needle[m - 1] = b'q';
            (needle, vec![b'q'; n])
        }
        5 => (fib_word(b'a', b'b', m), fib_word(b'a', b'b', n)),
        6 => (thue_morse(b'a', b'b', m), thue_morse(b'a', b'b', n)),
        7 => {
            // rare pair bytes 'Q' (offset 0) and 'Z' (offset 1), rest common
            let mut needle = vec![b'e'; m];
            needle[0] = b'Q';
            needle[1] = b'Z';
            let mut hay = vec![b'.'; n];
            let mut i = n / 2;
            while i + 1 < n {
                hay[i] = b'Q';
                hay[i + 1] = b'Z';
                i += 2 + (m > 2) as usize;
            }
            (needle, hay)
        }
        8 => (Vec::new(), vec![b'x'; n]),
        9 => {
            let mut needle: Vec<u8> = (0..m - 1).map(|i| if i % 2 == 0 { b'a' } else { b'b' }).collect();
            needle.push(b'c');
            let hay: Vec<u8> = (0..n).map(|i| if i % 2 == 0 { b'a' } else { b'b' }).collect();
            (needle, hay)
        }
        10 => {
            let needle: Vec<u8> = (0..m).map(|_| if xs(&mut x) & 1 == 0 { b'a' } else { b'b' }).collect();
            let hay: Vec<u8> = (0..n).map(|_| if xs(&mut x) & 1 == 0 { b'a' } else { b'b' }).collect();
            (needle, hay)
        }
        _ => {
            let needle = vec![b'a'; m];
            let mut hay = Vec::with_capacity(n + m);
            while hay.len() < n {
                hay.extend(std::iter::repeat(b'a').take(m - 1));
                hay.push(b'b');
            }
            hay.truncate(n);
            (needle, hay)
        }
    }
}

fn steps_reset() {
    #[cfg(memchr_verif)]
    memchr::verif::steps_reset();
}

fn steps() -> u64 {
    #[cfg(memchr_verif)]
    {
        return memchr::verif::steps();
    }
    #[allow(unreachable_code)]
    0
}

/// Steps of (build finder + operation).
pub fn measure(op: u8, needle: &[u8], hay: &[u8]) -> (u64, usize) {
    steps_reset();
    let k = match op {
        0 => Finder::new(needle).find(hay).map_or(0, |_| 1),
        1 => FinderRev::new(needle).rfind(hay).map_or(0, |_| 1),
        2 => Finder::new(needle).find_iter(hay).count(),
        3 => FinderRev::new(needle).rfind_iter(hay).count(),
        4 => memmem::find(hay, needle).map_or(0, |_| 1),
        _ => memmem::rfind(hay, needle).map_or(0, |_| 1),
    };
    (steps(), k)
}

fn step_viol(ctx: &Ctx, what: &str, family: u8, op: u8, n: usize, m: usize, seed: u64, needle: &[u8], hay: &[u8], detail: Value) -> Value {
    let config = ctx.config();
    json!({
        "property": ctx.prop, "kind": "steps", "config": config, "level": ctx.level, "impl": "memmem", "op": OPS[op as usize],
        "family": family, "family_name": FAMILIES[family as usize], "n": n, "m": m, "family_seed": seed,
        "needles": show(needle), "haystack_shown": show(hay), "haystack_len": n + m,
        "needle": if needle.len() <= 64 { hex(needle) } else { String::new() },
        "detail": detail, "what": what, "expected": format!("steps <= {}*(n+m)+{}, steps(4n,4m) <= {}*steps(n,m), steps(16n,16m) <= {}*steps(n,m)", A, B, RATIO, RATIO16), "observed": what,
        "signature": format!("{}|{}|steps|{}|{}|n={}|m={}", ctx.prop, config, family, OPS[op as usize], n, m),
    })
}

/// Judge one (family, op, n, m): the absolute bound at (n, m) and, when
/// `scale`, at (4n, 4m) together with the growth ratio.
/// The scaling relation is only meaningful where (n, m) and (4n, 4m) are
/// served by the same strategy and the operation traverses the whole
/// haystack at both sizes: needles of at least 65 bytes (Two-Way at every CPU
/// level, whatever the vector searcher's needle-length cap is retuned to),
/// families without an occurrence (any operation) or self-similar words with
/// a complete iterator traversal.
pub fn scalable(family: u8, op: u8, m: usize) -> bool {
    if m < 65 {
        return false;
    }
    match family {
        0 | 1 | 3 | 4 | 7 | 9 | 11 => true,
        5 | 6 => op == 2 || op == 3,
        _ => false,
    }
}

pub fn judge(ctx: &Ctx, family: u8, op: u8, n: usize, m: usize, seed: u64, scale: bool, maxes: &mut Maxes) -> Option<Value> {
    let scale = scale && scalable(family, op, m);
    let (needle, hay) = build(family, n, m, seed);
    let (s1, _) = measure(op, &needle, &hay);
    let nm = (needle.len() + hay.len()) as u64;
    maxes.note(family, s1, nm);
    if s1 > A * nm + B {
        return Some(step_viol(ctx, &format!("{} steps for n+m = {} ({:.1} per byte) exceeds {}*(n+m)+{}", s1, nm, s1 as f64 / nm as f64, A, B), family, op, hay.len(), needle.len(), seed, &needle, &hay, json!({"steps": s1})));
    }
    if scale {
        let (needle4, hay4) = build(family, 4 * n, 4 * m, seed);
        let (s4, _) = measure(op, &needle4, &hay4);
        let nm4 = (needle4.len() + hay4.len()) as u64;
        maxes.note(family, s4, nm4);
        if s4 > A * nm4 + B {
            return Some(step_viol(ctx, &format!("{} steps for n+m = {} ({:.1} per byte) exceeds {}*(n+m)+{}", s4, nm4, s4 as f64 / nm4 as f64, A, B), family, op, hay4.len(), needle4.len(), seed, &needle4, &hay4, json!({"steps": s4})));
        }
        if s1 >= RATIO_MIN {
            let r = s4 as f64 / s1 as f64;
            if r > maxes.ratio {
                maxes.ratio = r;
                maxes.ratio_at = format!("{} {} n={} m={}", FAMILIES[family as usize], OPS[op as usize], n, m);
            }
            maxes.ratios += 1;
            if s4 > RATIO * s1 {
                return Some(step_viol(ctx, &format!("steps grow x{:.1} ({} -> {}) when haystack and needle grow x4 (linear cost gives x4, quadratic x16)", r, s1, s4), family, op, hay.len(), needle.len(), seed, &needle, &hay, json!({"steps_n_m": s1, "steps_4n_4m": s4})));
            }
        }
        // a second, longer lever for super-linear terms with a small coefficient
        if s1 >= RATIO16_MIN && n <= 16384 && m <= 256 {
            let (needle16, hay16) = build(family, 16 * n, 16 * m, seed);
            let (s16, _) = measure(op, &needle16, &hay16);
            let nm16 = (needle16.len() + hay16.len()) as u64;
            maxes.note(family, s16, nm16);
            let r16 = s16 as f64 / s1 as f64;
            if r16 > maxes.ratio16 {
                maxes.ratio16 = r16;
                maxes.ratio16_at = format!("{} {} n={} m={}", FAMILIES[family as usize], OPS[op as usize], n, m);
            }
            if s16 > A * nm16 + B {
                return Some(step_viol(ctx, &format!("{} steps for n+m = {} ({:.1} per byte) exceeds {}*(n+m)+{}", s16, nm16, s16 as f64 / nm16 as f64, A, B), family, op, hay16.len(), needle16.len(), seed, &needle16, &hay16, json!({"steps": s16})));
            }
            if s16 > RATIO16 * s1 {
                return Some(step_viol(ctx, &format!("steps grow x{:.1} ({} -> {}) when haystack and needle grow x16 (linear cost gives x16, quadratic x256)", r16, s1, s16), family, op, hay.len(), needle.len(), seed, &needle, &hay, json!({"steps_n_m": s1, "steps_16n_16m": s16})));
            }
        }
    }
    None
}

pub struct Maxes {
    pub per_byte: f64,
    pub per_byte_at: String,
    pub ratio: f64,
    pub ratio_at: String,
    pub ratios: u64,
    pub ratio16: f64,
    pub ratio16_at: String,
}

impl Maxes {
    pub fn new() -> Maxes {
        Maxes { per_byte: 0.0, per_byte_at: String::new(), ratio: 0.0, ratio_at: String::new(), ratios: 0, ratio16: 0.0, ratio16_at: String::new() }
    }
    fn note(&mut self, family: u8, s: u64, nm: u64) {
        if nm >= 512 {
            let pb = s as f64 / nm as f64;
            if pb > self.per_byte {
                self.per_byte = pb;
                self.per_byte_at = format!("{} (n+m={})", FAMILIES[family as usize], nm);
            }
        }
    }
}

pub fn steps_stage(ctx: &Ctx) -> Frag {
    let mut frag = ctx.frag("steps-proptest");
    if !mvcore::cfgs::cfg_verif() {
        frag.notes.push("step counter hook absent".into());
        return frag;
    }
    frag.require(&["scaled pair evaluated (steps(n,m) >= RATIO_MIN)", "needle longer than 32 bytes", "needle of 2..=32 bytes", "n >= 64 KiB"]);
    let cases = ctx.n(3_000, 40_000) as u32;
    let max_n_idx = if ctx.thorough { 6 } else { 5 };
    struct St {
        frag: Frag,
        failed: Option<Value>,
        maxes: Maxes,
    }
    let st = RefCell::new(St { frag, failed: None, maxes: Maxes::new() });
    let strat = (
        0u8..FAMILIES.len() as u8,
        0u8..OPS.len() as u8,
        0usize..max_n_idx,
        prop_oneof![2 => 2usize..=32, 1 => 33usize..=64, 3 => 65usize..=256, 2 => 257usize..=1024],
        any::<u64>(),
        prop::bool::weighted(0.8),
    );
    let mut runner = crate::ctx::runner(ctx.stream_seed("steps-proptest"), cases);
    let res = runner.run(&strat, |(family, op, ni, m, seed, scale)| {
        let mut s = st.borrow_mut();
        let s = &mut *s;
        let n = [256usize, 1024, 4096, 16384, 65536, 262144][ni];
        // the scaled instance is (4n, 4m): keep it within 1 MiB / 4 KiB
        let scale = scale && n <= 65536;
        journal::set_ctx(&format!("{{\"stage\":\"steps\",\"family\":{},\"op\":{},\"n\":{},\"m\":{},\"seed\":{}}}", family, op, n, m, seed));
        let before = s.maxes.ratios;
        let r = judge(ctx, family, op, n, m, seed, scale, &mut s.maxes);
        if s.failed.is_none() {
            s.frag.evaluations += 1 + scale as u64;
            s.frag.class(&format!("family: {}", FAMILIES[family as usize]));
            s.frag.class(if m > 32 { "needle longer than 32 bytes" } else { "needle of 2..=32 bytes" });
            if n >= 65536 || (scale && 4 * n >= 65536) {
                s.frag.class("n >= 64 KiB");
            }
            if s.maxes.ratios > before {
                s.frag.class("scaled pair evaluated (steps(n,m) >= RATIO_MIN)");
            }
            if n >= 4096 {
                s.frag.nontrivial_hashes.insert(mvcore::oracle::fnv(&[&[family, op], &n.to_le_bytes(), &m.to_le_bytes(), &seed.to_le_bytes()]));
            }
            if s.frag.want_sample() && n >= 4096 {
                let (needle, hay) = build(family, n, m, seed);
                let (st1, k) = measure(op, &needle, &hay);
                s.frag.sample(json!({"stage":"steps","family":FAMILIES[family as usize],"op":OPS[op as usize],"n":hay.len(),"m":needle.len(),"steps":st1,"steps_per_byte":st1 as f64/(hay.len()+needle.len()) as f64,"matches":k}));
            }
        }
        if let Some(v) = r {
            s.failed = Some(v);
            return Err(TestCaseError::fail("violation"));
        }
        Ok(())
    });
    let mut s = st.into_inner();
    if let Err(e) = &res {
        if let Some(v) = s.failed.take() {
            s.frag.violation(v);
        } else {
            s.frag.notes.push(format!("proptest aborted without a recorded violation: {}", e.to_string().chars().take(500).collect::<String>()));
        }
    }
    s.frag.extra.insert("max_steps_per_byte".into(), json!(s.maxes.per_byte));
    s.frag.extra.insert("max_ratio_4x".into(), json!(s.maxes.ratio));
    s.frag.extra.insert("max_ratio_16x".into(), json!(s.maxes.ratio16));
    s.frag.notes.push(format!("max steps per byte of (n+m): {:.2} at {}; max growth for x4: {:.2} at {}; max growth for x16: {:.2} at {}; bounds A={} B={} RATIO={} RATIO16={}", s.maxes.per_byte, s.maxes.per_byte_at, s.maxes.ratio, s.maxes.ratio_at, s.maxes.ratio16, s.maxes.ratio16_at, A, B, RATIO, RATIO16));
    s.frag
}

/// Exhaustive small binary strings: the absolute bound only.
pub fn steps_exhaustive(ctx: &Ctx) -> Frag {
    let mut frag = ctx.frag("steps-exhaustive");
    if !mvcore::cfgs::cfg_verif() {
        return frag;
    }
    let (nmax, hmax) = if ctx.thorough { (8, 14) } else { (7, 12) };
    let mut maxs = 0u64;
    let mut group = 0;
    'outer: for nl in 0..=nmax {
        for nb in 0u32..(1 << nl) {
            group += 1;
            if !ctx.mine(group) {
                continue;
            }
            let needle: Vec<u8> = (0..nl).map(|i| if nb >> i & 1 == 1 { b'b' } else { b'a' }).collect();
            for hl in 0..=hmax {
                for hb in 0u32..(1 << hl) {
                    let hay: Vec<u8> = (0..hl).map(|i| if hb >> i & 1 == 1 { b'b' } else { b'a' }).collect();
                    for op in 0..4u8 {
                        let (s, _) = measure(op, &needle, &hay);
                        frag.evaluations += 1;
                        maxs = maxs.max(s);
                        if s > A * (nl + hl) as u64 + B {
                            frag.violation(step_viol(ctx, &format!("{} steps for n+m = {}", s, nl + hl), 10, op, hl, nl, 0, &needle, &hay, json!({"steps": s})));
                            break 'outer;
                        }
                    }
                    if nl >= 2 && hl >= nl {
                        frag.nontrivial_enum += 1;
                    }
                }
            }
        }
    }
    frag.extra.insert("max_steps_small".into(), json!(maxs));
    frag.sample(json!({"stage":"steps-exhaustive","enumerated":format!("every binary needle up to {} x every binary haystack up to {} x find/rfind/find_iter/rfind_iter", nmax, hmax),"max_steps_observed":maxs}));
    frag
}

pub fn replay(ctx: &Ctx, v: &Value) -> Option<Value> {
    let family = v["family"].as_u64()? as u8;
    let opn = v["op"].as_str()?;
    let op = OPS.iter().position(|o| *o == opn)? as u8;
    let n = v["n"].as_u64()? as usize;
    let m = v["m"].as_u64()? as usize;
    let seed = v["family_seed"].as_u64().unwrap_or(0);
    let nd = unhex(v["needle"].as_str().unwrap_or(""));
    let _ = nd;
    let mut mx = Maxes::new();
    judge(ctx, family, op, n, m, seed, n <= 65536, &mut mx)
}
