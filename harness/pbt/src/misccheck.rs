//! C18 (is_equal / is_prefix / is_suffix) and C19 (pair selection).

use crate::arena::{Arena, Place};
use crate::bytecheck::panic_msg;
use crate::ctx::Ctx;
use crate::journal;
use crate::report::{hex, show, unhex, Frag};
use memchr::arch::all::packedpair::Pair;
use memchr::arch::all::{is_equal, is_equal_raw, is_prefix, is_suffix};
use mvcore::subs::{self, Ranker};
use proptest::prelude::*;
use serde_json::{json, Value};
use std::cell::RefCell;
use std::panic::{catch_unwind, AssertUnwindSafe};

// ---------------------------------------------------------------------------
// C18

fn eq_viol(ctx: &Ctx, op: &str, x: &[u8], y: &[u8], px: Place, py: Place, expected: bool, observed: &str) -> Value {
    let config = ctx.config();
    json!({
        "property": ctx.prop, "kind": "eq", "config": config, "level": ctx.level, "impl": "arch::all", "op": op,
        "x": hex(x), "y": hex(y), "x_shown": show(x), "y_shown": show(y), "haystack_len": x.len() + y.len(),
        "place_x": crate::bytecheck::place_json(px), "place_y": crate::bytecheck::place_json(py),
        "expected": expected.to_string(), "observed": observed, "what": format!("{}(x, y) disagrees with the slice comparison", op),
        "signature": format!("{}|{}|{}|{}|{}", ctx.prop, config, op, hex(x), hex(y)),
    })
}

/// Runs the three predicates on placed operands. `which`: 0 equal, 1 prefix, 2 suffix (x = haystack, y = needle).
fn eq_ops(ctx: &Ctx, x: &[u8], y: &[u8], px: Place, py: Place, judge: bool) -> Option<Value> {
    let r = catch_unwind(AssertUnwindSafe(|| {
        let e = is_equal(x, y);
        if judge && e != (x == y) {
            return Some(("is_equal", x == y, e.to_string()));
        }
        if x.len() == y.len() {
            let e = unsafe { is_equal_raw(x.as_ptr(), y.as_ptr(), x.len()) };
            if judge && e != (x == y) {
                return Some(("is_equal_raw", x == y, e.to_string()));
            }
        }
        let p = is_prefix(x, y);
        if judge && p != x.starts_with(y) {
            return Some(("is_prefix", x.starts_with(y), p.to_string()));
        }
        let s = is_suffix(x, y);
        if judge && s != x.ends_with(y) {
            return Some(("is_suffix", x.ends_with(y), s.to_string()));
        }
        None
    }));
    match r {
        Ok(None) => None,
        Ok(Some((op, exp, obs))) => Some(eq_viol(ctx, op, x, y, px, py, exp, &obs)),
        Err(_) if ctx.prop == "C05" => None,
        Err(p) => Some(eq_viol(ctx, "panic", x, y, px, py, false, &format!("panic: {}", panic_msg(&p)))),
    }
}

fn content(i: usize, salt: usize) -> u8 {
    ((i * 7 + 3 + salt * 13) % 251) as u8
}

pub fn eq_exhaustive(ctx: &Ctx) -> Frag {
    let mut frag = ctx.frag("eq-exhaustive");
    let judge = ctx.prop != "C05" && ctx.prop != "C14";
    let max_len = if ctx.thorough { 160 } else { 96 };
    let na = if ctx.thorough { 16 } else { 8 };
    let max_pair = if ctx.thorough { 64 } else { 40 };
    let mut ax = Arena::new(4);
    let mut ay = Arena::new(4);
    let mut group = 0;
    let mut nontrivial = 0u64;
    let mut evals = 0u64;
    // placements: every alignment pair in the middle, plus both operands abutting guard pages
    let mut places: Vec<(Place, Place)> = Vec::new();
    for a in 0..na {
        for b in 0..na {
            places.push((Place::Mid(a), Place::Mid(b)));
        }
    }
    places.push((Place::End, Place::End));
    places.push((Place::Start, Place::End));
    places.push((Place::End, Place::Start));
    places.push((Place::Start, Place::Start));
    'outer: for &(px, py) in places.iter() {
        group += 1;
        if !ctx.mine(group) {
            continue;
        }
        for len in 0..=max_len {
            journal::set_ctx(&format!("{{\"stage\":\"eq-exhaustive\",\"len\":{},\"px\":{},\"py\":{}}}", len, crate::bytecheck::place_json(px), crate::bytecheck::place_json(py)));
            let x = ax.window(len, px);
            let y = ay.window(len, py);
            for i in 0..len {
                x[i] = content(i, len);
                y[i] = x[i];
            }
            evals += 1;
            if let Some(v) = eq_ops(ctx, x, y, px, py, judge) {
                frag.violation(v);
                break 'outer;
            }
            for p in 0..len {
                for bit in [0x01u8, 0x80, 0x10] {
                    y[p] ^= bit;
                    evals += 1;
                    if len >= 2 && p >= len.saturating_sub(4).min((len / 4) * 4) {
                        nontrivial += 1;
                    }
                    if let Some(v) = eq_ops(ctx, x, y, px, py, judge) {
                        frag.violation(v);
                        break 'outer;
                    }
                    y[p] ^= bit;
                }
                // two differences: p and a later one
                if p + 1 < len {
                    let q = p + 1 + (p * 5 + len) % (len - p - 1);
                    y[p] ^= 0x04;
                    y[q] ^= 0x40;
                    evals += 1;
                    if let Some(v) = eq_ops(ctx, x, y, px, py, judge) {
                        frag.violation(v);
                        break 'outer;
                    }
                    y[p] ^= 0x04;
                    y[q] ^= 0x40;
                }
                // two differences with the SAME delta at word-like distances (folds that cancel)
                for d in [1usize, 2, 3, 4, 8, 16, 32] {
                    if p + d < len {
                        for bit in [0x01u8, 0x80] {
                            y[p] ^= bit;
                            y[p + d] ^= bit;
                            evals += 1;
                            nontrivial += 1;
                            if let Some(v) = eq_ops(ctx, x, y, px, py, judge) {
                                frag.violation(v);
                                break 'outer;
                            }
                            y[p] ^= bit;
                            y[p + d] ^= bit;
                        }
                    }
                }
            }
        }
        // the needle ALIASES the haystack: every sub-slice of it
        if matches!(py, Place::Mid(0) | Place::End | Place::Start) {
            for hl in 0..=max_pair {
                let x = ax.window(hl, px);
                for i in 0..hl {
                    x[i] = content(i % 5, hl); // repetitive, so that sub-slices recur
                }
                let xs: &[u8] = &*x;
                for a in 0..=hl {
                    for l in 0..=(hl - a) {
                        evals += 1;
                        nontrivial += 1;
                        if let Some(mut v) = eq_ops(ctx, xs, &xs[a..a + l], px, px, judge) {
                            v["alias"] = json!([a, l]);
                            frag.violation(v);
                            break 'outer;
                        }
                        if let Some(mut v) = eq_ops(ctx, &xs[a..a + l], xs, px, px, judge) {
                            v["alias_swapped"] = json!([a, l]);
                            frag.violation(v);
                            break 'outer;
                        }
                    }
                }
            }
        }
        // all length pairs: prefix / suffix / unequal lengths
        for hl in 0..=max_pair {
            for nl in 0..=max_pair {
                for which in 0..2 {
                    let x = ax.window(hl, px);
                    let y = ay.window(nl, py);
                    for i in 0..hl {
                        x[i] = content(i, hl);
                    }
                    // needle = prefix (which==0) or suffix (which==1) of the haystack where it fits, otherwise unrelated bytes
                    for i in 0..nl {
                        y[i] = if nl <= hl {
                            if which == 0 { x[i] } else { x[hl - nl + i] }
                        } else {
                            content(i, hl)
                        };
                    }
                    evals += 1;
                    if nl >= 2 {
                        nontrivial += 1;
                    }
                    if let Some(v) = eq_ops(ctx, x, y, px, py, judge) {
                        frag.violation(v);
                        break 'outer;
                    }
                    // one difference at every needle position
                    for p in 0..nl {
                        y[p] ^= 0x20;
                        evals += 1;
                        if let Some(v) = eq_ops(ctx, x, y, px, py, judge) {
                            frag.violation(v);
                            break 'outer;
                        }
                        y[p] ^= 0x20;
                    }
                }
            }
        }
    }
    frag.evaluations = evals;
    frag.nontrivial_enum = nontrivial;
    frag.sample(json!({"stage":"eq-exhaustive","enumerated": format!("lengths 0..={} x (equal | one flipped bit (0x01, 0x80, 0x10) at every position | two differences) x {}x{} operand alignments + operands abutting PROT_NONE pages; all length pairs 0..={} for is_prefix/is_suffix/unequal lengths with a difference at every needle position", max_len, na, na, max_pair)}));
    frag.sample(json!({"stage":"eq-exhaustive","x":"\\x0a\\x11\\x18","y":"\\x0a\\x11\\x98","is_equal":false}));
    frag.subspaces.push(json!({"what":"is_equal/is_prefix/is_suffix/is_equal_raw", "max_len":max_len, "alignments": na, "max_pair_len": max_pair, "exhaustive_within_bounds": true}));
    frag
}

pub fn eq_pbt(ctx: &Ctx) -> Frag {
    let frag = ctx.frag("eq-proptest");
    let cases = ctx.n(100_000, 2_000_000) as u32;
    let judge = ctx.prop != "C05" && ctx.prop != "C14";
    let strat = (
        prop::collection::vec(any::<u8>(), 0..=600),
        0u32..65536,
        0u32..65536,
        0u8..8,
        (0usize..16, 0usize..16),
        0u8..4,
    );
    struct St {
        frag: Frag,
        failed: Option<Value>,
    }
    let st = RefCell::new(St { frag, failed: None });
    let ax = RefCell::new(Arena::new(6));
    let ay = RefCell::new(Arena::new(6));
    let mut runner = crate::ctx::runner(ctx.stream_seed("eq-proptest"), cases);
    let res = runner.run(&strat, |(base, f1, f2, kind, (a, b), pl)| {
        let mut s = st.borrow_mut();
        let len = base.len();
        let at = |f: u32, n: usize| ((f as u64 * n as u64) >> 16) as usize;
        let (x, y): (Vec<u8>, Vec<u8>) = match kind {
            0 => (base.clone(), base.clone()),
            1 if len > 0 => {
                let mut y = base.clone();
                y[at(f1, len)] ^= 1 << (f2 % 8);
                (base.clone(), y)
            }
            2 => (base.clone(), base[..at(f1, len + 1)].to_vec()),
            3 => (base.clone(), base[at(f1, len + 1)..].to_vec()),
            4 if len > 0 => {
                // a prefix/suffix with one flipped bit
                let cut = at(f1, len + 1);
                let mut y = base[..cut].to_vec();
                if cut > 0 {
                    let p = at(f2, cut);
                    y[p] ^= 0x80;
                }
                (base.clone(), y)
            }
            5 => (base.clone(), base.iter().rev().copied().collect()),
            _ if len > 0 => {
                // 2-4 differences with the same delta at a fixed stride (1, 2, 4, 8, 16, 32, 64)
                let mut y = base.clone();
                let stride = 1usize << (f2 % 7);
                let delta = 1u8 << ((f2 >> 3) % 8);
                let k = 2 + (f2 >> 6) as usize % 3;
                let p0 = at(f1, len);
                for j in 0..k {
                    if p0 + j * stride < len {
                        y[p0 + j * stride] ^= delta;
                    }
                }
                (base.clone(), y)
            }
            _ => (base.clone(), base.clone()),
        };
        let (px, py) = match pl {
            0 => (Place::Mid(a), Place::Mid(b)),
            1 => (Place::End, Place::End),
            2 => (Place::Start, Place::End),
            _ => (Place::MidEnd(a), Place::Mid(b)),
        };
        let mut axb = ax.borrow_mut();
        let mut ayb = ay.borrow_mut();
        let xp = axb.put(&x, px);
        let yp = ayb.put(&y, py);
        if s.failed.is_none() {
            s.frag.evaluations += 1;
            if x.len() >= 2 && x != y {
                s.frag.nontrivial_hashes.insert(mvcore::oracle::fnv(&[&x, &y]));
            }
            if s.frag.want_sample() && kind == 4 {
                s.frag.sample(json!({"stage":"eq-proptest","x":show(&x),"y":show(&y),"equal":x==y,"starts_with":x.starts_with(&y),"ends_with":x.ends_with(&y)}));
            }
        }
        journal::set_ctx(&format!("{{\"stage\":\"eq-proptest\",\"x\":\"{}\",\"y\":\"{}\"}}", hex(&x), hex(&y)));
        if let Some(v) = eq_ops(ctx, xp, yp, px, py, judge) {
            s.failed = Some(v);
            return Err(TestCaseError::fail("violation"));
        }
        // also with the operands swapped
        if let Some(v) = eq_ops(ctx, yp, xp, py, px, judge) {
            s.failed = Some(v);
            return Err(TestCaseError::fail("violation"));
        }
        Ok(())
    });
    let mut s = st.into_inner();
    if let Err(e) = &res {
        if let Some(v) = s.failed.take() {
            s.frag.violation(v);
        } else {
            s.frag.notes.push(format!("proptest aborted without a recorded violation: {}", e.to_string().chars().take(500).collect::<String>()));
        }
    }
    s.frag
}

pub fn eq_replay(ctx: &Ctx, v: &Value) -> Option<Value> {
    let x = unhex(v["x"].as_str().unwrap_or(""));
    let y = unhex(v["y"].as_str().unwrap_or(""));
    let px = crate::bytecheck::place_from_json(&v["place_x"]);
    let py = crate::bytecheck::place_from_json(&v["place_y"]);
    let mut ax = Arena::new(4 + x.len() / 4096 + 2);
    let mut ay = Arena::new(4 + y.len() / 4096 + 2);
    let xp = ax.put(&x, px);
    if let Some(al) = v.get("alias").and_then(|a| a.as_array()) {
        let (a, l) = (al[0].as_u64().unwrap_or(0) as usize, al[1].as_u64().unwrap_or(0) as usize);
        let xs: &[u8] = &*xp;
        return eq_ops(ctx, xs, &xs[a..a + l], px, px, true);
    }
    if let Some(al) = v.get("alias_swapped").and_then(|a| a.as_array()) {
        // here "y" of the report is the whole buffer and "x" its sub-slice
        let (a, l) = (al[0].as_u64().unwrap_or(0) as usize, al[1].as_u64().unwrap_or(0) as usize);
        let yp = ay.put(&y, py);
        let ys: &[u8] = &*yp;
        return eq_ops(ctx, &ys[a..a + l], ys, py, py, true);
    }
    let yp = ay.put(&y, py);
    eq_ops(ctx, xp, yp, px, py, true)
}

// ---------------------------------------------------------------------------
// C19

fn pair_viol(ctx: &Ctx, op: &str, needle: &[u8], detail: Value, what: &str) -> Value {
    let config = ctx.config();
    json!({
        "property": ctx.prop, "kind": "pair", "config": config, "level": ctx.level, "impl": "Pair", "op": op,
        "needle": hex(needle), "needles": hex(needle), "needle_shown": show(needle), "haystack_len": needle.len(),
        "detail": detail, "what": what, "expected": "see what", "observed": what,
        "signature": format!("{}|{}|{}|{}|{}", ctx.prop, config, op, hex(needle), detail),
    })
}

/// The statement of C19 for one (needle, ranker).
fn check_selected(ctx: &Ctx, needle: &[u8], rk: &Ranker) -> Option<Value> {
    let det = json!({"ranker": subs::RANKER_NAMES[rk.kind as usize], "table": if rk.kind >= subs::RK_TABLE { hex(&rk.table) } else { String::new() }});
    let r = catch_unwind(AssertUnwindSafe(|| subs::pair_with_ranker(rk, needle)));
    let p = match r {
        Err(p) => return Some(pair_viol(ctx, "with_ranker", needle, det, &format!("panic: {}", panic_msg(&p)))),
        Ok(p) => p,
    };
    match p {
        None => {
            if needle.len() >= 2 {
                return Some(pair_viol(ctx, "with_ranker", needle, det, "returned None for a needle of at least 2 bytes"));
            }
        }
        Some(p) => {
            let (i1, i2) = (p.index1() as usize, p.index2() as usize);
            if needle.len() < 2 {
                return Some(pair_viol(ctx, "with_ranker", needle, det, "returned a pair for a needle shorter than 2 bytes"));
            }
            if i1 == i2 || i1 >= needle.len() || i2 >= needle.len() || i1 > 254 || i2 > 254 {
                return Some(pair_viol(ctx, "with_ranker", needle, det, &format!("selected offsets ({}, {}) for a needle of {} bytes: must be distinct, inside the needle and <= 254", i1, i2, needle.len())));
            }
            if let Some(v) = finders_report_pair(ctx, needle, p) {
                return Some(v);
            }
        }
    }
    None
}

fn finders_report_pair(ctx: &Ctx, needle: &[u8], p: Pair) -> Option<Value> {
    let want = (p.index1(), p.index2());
    for &imp in subs::PP_IMPLS.iter() {
        let r = catch_unwind(AssertUnwindSafe(|| subs::make_pp(imp, needle, Some(p))));
        match r {
            Err(pa) => return Some(pair_viol(ctx, "with_pair", needle, json!({"impl": subs::sub_name(imp), "pair": [want.0, want.1]}), &format!("panic: {}", panic_msg(&pa)))),
            Ok(Err(())) => {}
            Ok(Ok(None)) => {
                if subs::pp_expected_available(imp, ctx.level) {
                    return Some(pair_viol(ctx, "with_pair", needle, json!({"impl": subs::sub_name(imp), "pair": [want.0, want.1]}), "constructor returned None for a valid pair although the implementation is available"));
                }
            }
            Ok(Ok(Some(f))) => {
                if f.pair() != want {
                    return Some(pair_viol(ctx, "pair()", needle, json!({"impl": subs::sub_name(imp), "pair": [want.0, want.1]}), &format!("finder reports pair {:?}, was built from {:?}", f.pair(), want)));
                }
            }
        }
    }
    None
}

pub fn pair_indices(ctx: &Ctx) -> Frag {
    let mut frag = ctx.frag("pair-indices");
    let lens = [0usize, 1, 2, 3, 17, 255, 256, 300];
    let mut group = 0;
    'outer: for &len in lens.iter() {
        let needle: Vec<u8> = (0..len).map(|i| content(i, 1)).collect();
        for i1 in 0u16..256 {
            group += 1;
            if !ctx.mine(group) {
                continue;
            }
            for i2 in 0u16..256 {
                let (a, b) = (i1 as u8, i2 as u8);
                frag.evaluations += 1;
                let valid = a != b && (a as usize) < len && (b as usize) < len;
                if valid && (a >= 128 || b >= 128 || len >= 3) {
                    frag.nontrivial_enum += 1;
                }
                let r = catch_unwind(AssertUnwindSafe(|| Pair::with_indices(&needle, a, b)));
                let det = json!({"index1": a, "index2": b, "len": len});
                match r {
                    Err(p) => {
                        frag.violation(pair_viol(ctx, "with_indices", &needle, det, &format!("panic: {}", panic_msg(&p))));
                        break 'outer;
                    }
                    Ok(None) => {
                        if valid {
                            frag.violation(pair_viol(ctx, "with_indices", &needle, det, "rejected a pair of distinct in-range offsets"));
                            break 'outer;
                        }
                    }
                    Ok(Some(p)) => {
                        if !valid {
                            frag.violation(pair_viol(ctx, "with_indices", &needle, det, "accepted offsets that are equal or outside the needle"));
                            break 'outer;
                        }
                        if (p.index1(), p.index2()) != (a, b) {
                            frag.violation(pair_viol(ctx, "with_indices", &needle, det, "index1()/index2() differ from the accepted offsets"));
                            break 'outer;
                        }
                        // building finders for all 65 k pairs of the long needles is cheap enough
                        if let Some(v) = finders_report_pair(ctx, &needle, p) {
                            frag.violation(v);
                            break 'outer;
                        }
                    }
                }
            }
        }
    }
    frag.sample(json!({"stage":"pair-indices","enumerated":"all 65536 (index1,index2) x needle lengths {0,1,2,3,17,255,256,300}; every accepted pair handed to every packed pair finder type"}));
    frag.sample(json!({"stage":"pair-indices","needle_len":300,"index1":254,"index2":17,"accepted":true}));
    frag.subspaces.push(json!({"what":"Pair::with_indices","needle_lengths":lens,"pairs":"0..=255 squared","exhaustive_within_bounds":true}));
    frag
}

fn pair_needle() -> impl Strategy<Value = Vec<u8>> {
    let len = prop_oneof![
        2 => 0usize..=4,
        3 => 2usize..=40,
        2 => 200usize..=300,
        2 => 0usize..=600,
    ];
    (len, 0u8..7, any::<u8>(), any::<u8>(), any::<u64>()).prop_map(|(len, kind, a, b, bits)| {
        let mut v = vec![a; len];
        let mut x = bits | 1;
        let mut next = || {
            x ^= x << 13;
            x ^= x >> 7;
            x ^= x << 17;
            x
        };
        match kind {
            0 => {}
            1 => {
                for i in 0..len {
                    if next() & 1 == 1 {
                        v[i] = b;
                    }
                }
            }
            2 => {
                for i in 0..len {
                    v[i] = (i % 256) as u8;
                }
            }
            3 => {
                // one rare byte only beyond offset 254 (common bytes elsewhere)
                for i in 0..len {
                    v[i] = b" etaoin"[i % 7];
                }
                if len > 255 {
                    let p = 255 + (next() as usize % (len - 255));
                    v[p] = 0xF7;
                }
            }
            4 => {
                for i in 0..len {
                    v[i] = (next() >> 24) as u8;
                }
            }
            5 => {
                // rare byte at the front / middle / end
                for i in 0..len {
                    v[i] = b'e';
                }
                if len > 0 {
                    let p = [0, len / 2, len - 1][next() as usize % 3];
                    v[p] = b'Q';
                }
            }
            _ => {
                for i in 0..len {
                    v[i] = [a, b, a ^ 0xFF][(next() % 3) as usize];
                }
            }
        }
        v
    })
}

pub fn pair_pbt(ctx: &Ctx) -> Frag {
    let frag = ctx.frag("pair-proptest");
    let cases = ctx.n(60_000, 1_000_000) as u32;
    struct St {
        frag: Frag,
        failed: Option<Value>,
    }
    let st = RefCell::new(St { frag, failed: None });
    let strat = (pair_needle(), 0u8..subs::N_RANKERS, prop::array::uniform32(any::<u8>()));
    let mut runner = crate::ctx::runner(ctx.stream_seed("pair-proptest"), cases);
    let res = runner.run(&strat, |(needle, rk, seed)| {
        let mut s = st.borrow_mut();
        let mut table = [0u8; 256];
        for i in 0..256 {
            table[i] = seed[i % 32].wrapping_mul(31).wrapping_add((i as u8).wrapping_mul(seed[(i / 32) % 32] | 1));
        }
        let ranker = Ranker::new(rk, &table, &needle);
        if s.failed.is_none() {
            s.frag.evaluations += 1;
            s.frag.class(&format!("ranker {}", subs::RANKER_NAMES[rk as usize]));
            s.frag.class(match needle.len() {
                0..=1 => "needle len < 2",
                2..=254 => "needle len 2..=254",
                255..=256 => "needle len 255..=256",
                _ => "needle len > 256",
            });
            if needle.len() >= 3 && rk != subs::RK_DEFAULT {
                s.frag.nontrivial_hashes.insert(mvcore::oracle::fnv(&[&needle, &[rk], &table]));
            }
            if s.frag.want_sample() && needle.len() > 3 && needle.len() < 60 && rk != 0 {
                let p = subs::pair_with_ranker(&Ranker::new(rk, &table, &needle), &needle);
                s.frag.sample(json!({"stage":"pair-proptest","needle":show(&needle),"ranker":subs::RANKER_NAMES[rk as usize],"pair":p.map(|p| vec![p.index1(), p.index2()])}));
            }
        }
        journal::set_ctx(&format!("{{\"stage\":\"pair-proptest\",\"needle\":\"{}\",\"ranker\":{}}}", hex(&needle), rk));
        if let Some(v) = check_selected(ctx, &needle, &ranker) {
            s.failed = Some(v);
            return Err(TestCaseError::fail("violation"));
        }
        Ok(())
    });
    let mut s = st.into_inner();
    if let Err(e) = &res {
        if let Some(v) = s.failed.take() {
            s.frag.violation(v);
        } else {
            s.frag.notes.push(format!("proptest aborted without a recorded violation: {}", e.to_string().chars().take(500).collect::<String>()));
        }
    }
    s.frag.require(&["needle len < 2", "needle len 2..=254", "needle len 255..=256", "needle len > 256", "ranker stateful", "ranker const0"]);
    s.frag
}

pub fn pair_replay(ctx: &Ctx, v: &Value) -> Option<Value> {
    let needle = unhex(v["needle"].as_str().unwrap_or(""));
    let d = &v["detail"];
    if let Some(i1) = d.get("index1").and_then(|x| x.as_u64()) {
        let i2 = d["index2"].as_u64().unwrap_or(0);
        let (a, b) = (i1 as u8, i2 as u8);
        let valid = a != b && (a as usize) < needle.len() && (b as usize) < needle.len();
        let r = catch_unwind(AssertUnwindSafe(|| Pair::with_indices(&needle, a, b)));
        return match r {
            Err(p) => Some(pair_viol(ctx, "with_indices", &needle, d.clone(), &format!("panic: {}", panic_msg(&p)))),
            Ok(None) if valid => Some(pair_viol(ctx, "with_indices", &needle, d.clone(), "rejected a pair of distinct in-range offsets")),
            Ok(Some(_)) if !valid => Some(pair_viol(ctx, "with_indices", &needle, d.clone(), "accepted offsets that are equal or outside the needle")),
            Ok(Some(p)) => finders_report_pair(ctx, &needle, p),
            _ => None,
        };
    }
    if let Some(pr) = d.get("pair").and_then(|x| x.as_array()) {
        let p = Pair::with_indices(&needle, pr[0].as_u64().unwrap_or(0) as u8, pr[1].as_u64().unwrap_or(0) as u8)?;
        return finders_report_pair(ctx, &needle, p);
    }
    let name = d["ranker"].as_str().unwrap_or("default");
    let kind = subs::RANKER_NAMES.iter().position(|n| *n == name).unwrap_or(0) as u8;
    let mut table = [0u8; 256];
    let t = unhex(d["table"].as_str().unwrap_or(""));
    if t.len() == 256 {
        table.copy_from_slice(&t);
    }
    // a recorded table already includes the ranker's own transformation only for RK_TABLE / RK_STATEFUL
    let rk = Ranker::new(kind, &table, &needle);
    check_selected(ctx, &needle, &rk)
}
