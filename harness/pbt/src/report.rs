//! Result fragments written by every `mv` process and merged by `check`.

use serde_json::{json, Map, Value};
use std::collections::{BTreeMap, HashSet};

pub fn hex(b: &[u8]) -> String {
    let mut s = String::with_capacity(b.len() * 2);
    for x in b {
        s.push_str(&format!("{:02x}", x));
    }
    s
}

pub fn unhex(s: &str) -> Vec<u8> {
    let b = s.as_bytes();
    let mut v = Vec::with_capacity(b.len() / 2);
    let mut i = 0;
    while i + 1 < b.len() {
        v.push(u8::from_str_radix(&s[i..i + 2], 16).unwrap());
        i += 2;
    }
    v
}

/// Render bytes for humans: printable ASCII as is, everything else \xNN;
/// long strings are run-length summarised.
pub fn show(b: &[u8]) -> String {
    let mut s = String::new();
    let mut i = 0;
    while i < b.len() {
        let mut j = i;
        while j < b.len() && b[j] == b[i] {
            j += 1;
        }
        let run = j - i;
        let one = if (0x20..0x7f).contains(&b[i]) && b[i] != b'\\' && b[i] != b'{' {
            (b[i] as char).to_string()
        } else {
            format!("\\x{:02x}", b[i])
        };
        if run >= 6 {
            s.push_str(&format!("{}{{{}}}", one, run));
        } else {
            for _ in 0..run {
                s.push_str(&one);
            }
        }
        i = j;
        if s.len() > 300 {
            s.push_str(&format!("...(+{} bytes)", b.len() - i));
            break;
        }
    }
    s
}

pub struct Frag {
    pub property: String,
    pub stage: String,
    pub config: String,
    pub shard: String,
    pub seed: u64,
    pub evaluations: u64,
    /// non-trivial cases that are distinct by construction (enumerations)
    pub nontrivial_enum: u64,
    /// hashes of non-trivial generated cases (deduplicated at merge time)
    pub nontrivial_hashes: HashSet<u64>,
    pub classes: BTreeMap<String, u64>,
    pub samples: Vec<Value>,
    pub violations: Vec<Value>,
    pub notes: Vec<String>,
    pub subspaces: Vec<Value>,
    pub extra: Map<String, Value>,
    pub max_samples: usize,
    pub required_classes: Vec<String>,
}

impl Frag {
    pub fn new(property: &str, stage: &str, config: &str, shard: &str, seed: u64) -> Frag {
        Frag {
            property: property.to_string(),
            stage: stage.to_string(),
            config: config.to_string(),
            shard: shard.to_string(),
            seed,
            evaluations: 0,
            nontrivial_enum: 0,
            nontrivial_hashes: HashSet::new(),
            classes: BTreeMap::new(),
            samples: Vec::new(),
            violations: Vec::new(),
            notes: Vec::new(),
            subspaces: Vec::new(),
            extra: Map::new(),
            max_samples: 6,
            required_classes: Vec::new(),
        }
    }

    #[inline]
    pub fn class(&mut self, name: &str) {
        self.class_n(name, 1);
    }

    pub fn class_n(&mut self, name: &str, n: u64) {
        if n == 0 {
            return;
        }
        if let Some(c) = self.classes.get_mut(name) {
            *c += n;
        } else {
            self.classes.insert(name.to_string(), n);
        }
    }

    /// Input-side classes that must be non-empty in the merged result.
    pub fn require(&mut self, names: &[&str]) {
        for n in names {
            self.required_classes.push(n.to_string());
            self.classes.entry(n.to_string()).or_insert(0);
        }
    }

    pub fn sample(&mut self, v: Value) {
        if self.samples.len() < self.max_samples {
            self.samples.push(v);
        }
    }

    pub fn want_sample(&self) -> bool {
        self.samples.len() < self.max_samples
    }

    pub fn violation(&mut self, v: Value) {
        if self.violations.len() < 20 {
            self.violations.push(v);
        }
    }

    pub fn failed(&self) -> bool {
        !self.violations.is_empty()
    }

    pub fn to_json(&self) -> Value {
        let mut hashes: Vec<u64> = self.nontrivial_hashes.iter().copied().collect();
        hashes.sort_unstable();
        json!({
            "property": self.property,
            "stage": self.stage,
            "config": self.config,
            "shard": self.shard,
            "seed": self.seed,
            "evaluations": self.evaluations,
            "nontrivial_enum": self.nontrivial_enum,
            "nontrivial_hashed": hashes.len(),
            "classes": self.classes,
            "required_classes": self.required_classes,
            "samples": self.samples,
            "violations": self.violations,
            "notes": self.notes,
            "subspaces": self.subspaces,
            "extra": self.extra,
        })
    }

    /// Write `<out>` (JSON) and `<out>.hashes` (little-endian u64s).
    pub fn write(&self, out: &str) {
        let mut hashes: Vec<u64> = self.nontrivial_hashes.iter().copied().collect();
        hashes.sort_unstable();
        let mut raw = Vec::with_capacity(hashes.len() * 8);
        for h in &hashes {
            raw.extend_from_slice(&h.to_le_bytes());
        }
        std::fs::write(format!("{}.hashes", out), raw).expect("write hashes");
        let tmp = format!("{}.tmp", out);
        std::fs::write(&tmp, serde_json::to_vec(&self.to_json()).unwrap()).expect("write fragment");
        std::fs::rename(&tmp, out).expect("rename fragment");
    }
}
