//! Crash journal: the case being executed is described in a static buffer;
//! a SIGSEGV/SIGBUS/SIGILL/SIGABRT/SIGFPE handler writes it to a pre-opened
//! file descriptor and exits with status 70, so that a hardware fault (for
//! instance a read that runs into a PROT_NONE guard page) is attributed to a
//! concrete case instead of killing the run anonymously.

use std::sync::atomic::{AtomicI32, AtomicU64, AtomicUsize, Ordering::Relaxed};

const CAP: usize = 8192;
static mut BUF: [u8; CAP] = [0; CAP];
static LEN: AtomicUsize = AtomicUsize::new(0);
static POS_A: AtomicU64 = AtomicU64::new(0);
static POS_B: AtomicU64 = AtomicU64::new(0);
static FD: AtomicI32 = AtomicI32::new(2);

pub const CRASH_EXIT: i32 = 70;

/// Describe the group of cases about to run (JSON text, truncated to 8 KiB).
pub fn set_ctx(s: &str) {
    let b = s.as_bytes();
    let n = b.len().min(CAP);
    unsafe {
        let buf = &raw mut BUF;
        (&mut (*buf))[..n].copy_from_slice(&b[..n]);
    }
    LEN.store(n, Relaxed);
}

/// Cheap per-case refinement of the context.
#[inline(always)]
pub fn set_pos(a: u64, b: u64) {
    POS_A.store(a, Relaxed);
    POS_B.store(b, Relaxed);
}

pub fn ctx() -> String {
    let n = LEN.load(Relaxed);
    let s = unsafe {
        let buf = &raw const BUF;
        String::from_utf8_lossy(&(&(*buf))[..n]).into_owned()
    };
    format!(
        "{{\"ctx\":{},\"pos_a\":{},\"pos_b\":{}}}",
        if s.is_empty() { "null".to_string() } else { s },
        POS_A.load(Relaxed),
        POS_B.load(Relaxed)
    )
}

unsafe fn wr(fd: i32, b: &[u8]) {
    let mut off = 0;
    while off < b.len() {
        let r = libc::write(fd, b.as_ptr().add(off) as *const _, b.len() - off);
        if r <= 0 {
            break;
        }
        off += r as usize;
    }
}

unsafe fn wr_u64(fd: i32, mut v: u64) {
    let mut tmp = [0u8; 24];
    let mut i = tmp.len();
    if v == 0 {
        i -= 1;
        tmp[i] = b'0';
    }
    while v > 0 {
        i -= 1;
        tmp[i] = b'0' + (v % 10) as u8;
        v /= 10;
    }
    wr(fd, &tmp[i..]);
}

extern "C" fn handler(sig: i32, info: *mut libc::siginfo_t, _: *mut libc::c_void) {
    unsafe {
        let fd = FD.load(Relaxed);
        wr(fd, b"{\"crash_signal\":");
        wr_u64(fd, sig as u64);
        wr(fd, b",\"fault_addr\":");
        let addr = if info.is_null() { 0 } else { (*info).si_addr() as u64 };
        wr_u64(fd, addr);
        wr(fd, b",\"pos_a\":");
        wr_u64(fd, POS_A.load(Relaxed));
        wr(fd, b",\"pos_b\":");
        wr_u64(fd, POS_B.load(Relaxed));
        wr(fd, b",\"ctx\":");
        let n = LEN.load(Relaxed);
        if n == 0 {
            wr(fd, b"null");
        } else {
            let buf = &raw const BUF;
            wr(fd, &(&(*buf))[..n]);
        }
        wr(fd, b"}\n");
        libc::_exit(CRASH_EXIT);
    }
}

/// Install the handlers; crash records go to `path` (or stderr).
pub fn install(path: Option<&str>) {
    unsafe {
        if let Some(p) = path {
            let c = std::ffi::CString::new(p).unwrap();
            let fd = libc::open(
                c.as_ptr(),
                libc::O_WRONLY | libc::O_CREAT | libc::O_TRUNC,
                0o644,
            );
            if fd >= 0 {
                FD.store(fd, Relaxed);
            }
        }
        // alternate stack, so that a stack overflow is reported too
        let ss_size = 1 << 16;
        let stack = libc::mmap(
            std::ptr::null_mut(),
            ss_size,
            libc::PROT_READ | libc::PROT_WRITE,
            libc::MAP_PRIVATE | libc::MAP_ANONYMOUS,
            -1,
            0,
        );
        let ss = libc::stack_t { ss_sp: stack, ss_flags: 0, ss_size };
        libc::sigaltstack(&ss, std::ptr::null_mut());
        let mut sa: libc::sigaction = std::mem::zeroed();
        sa.sa_sigaction = handler as *const () as usize;
        sa.sa_flags = libc::SA_SIGINFO | libc::SA_ONSTACK;
        libc::sigemptyset(&mut sa.sa_mask);
        for sig in [
            libc::SIGSEGV,
            libc::SIGBUS,
            libc::SIGILL,
            libc::SIGABRT,
            libc::SIGFPE,
        ] {
            libc::sigaction(sig, &sa, std::ptr::null_mut());
        }
    }
}
