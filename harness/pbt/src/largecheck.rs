//! Large haystacks (256 KiB to a few MiB; thorough: tens of MiB): code paths that
//! only exist above a size threshold (block-skipping loops, page-wise walks,
//! lane counters folded every N vectors, search-time tables), exercised at
//! structured match positions and start alignments, with decoy needle bytes
//! directly in front of and behind the haystack slice.
//!
//! Byte search: one planted match (or none, or every byte) per case; the
//! expectation follows from the construction. Substring search: a needle planted
//! at chosen offsets in a filler that carries partial needles.

use crate::alloccheck::armed;
use crate::bytecheck::panic_msg;
use crate::ctx::Ctx;
use crate::report::{hex, show, unhex, Frag};
use memchr::memmem::{self, Finder, FinderBuilder, FinderRev, Prefilter};
use mvcore::bytes::{self, IMPL_NAMES};
use serde_json::{json, Value};
use std::panic::{catch_unwind, AssertUnwindSafe};

const PAD: usize = 8192;

/// A buffer with `len` haystack bytes starting `s` bytes after a 4096-aligned address (+128).
struct Buf {
    v: Vec<u8>,
    start: usize,
    len: usize,
}

impl Buf {
    fn new(len: usize, s: usize, fill: u8) -> Buf {
        let v = vec![fill; len + 2 * PAD];
        let base = v.as_ptr() as usize;
        let aligned = (base + 4095) / 4096 * 4096 - base;
        Buf { v, start: aligned + 128 + s, len }
    }
    fn hay(&self) -> &[u8] {
        &self.v[self.start..self.start + self.len]
    }
    fn decoys(&mut self, needles: &[u8]) {
        for k in 0..64 {
            self.v[self.start - 1 - k] = needles[k % needles.len()];
            self.v[self.start + self.len + k] = needles[(k + 1) % needles.len()];
        }
    }
    fn set(&mut self, at: usize, b: u8) {
        self.v[self.start + at] = b;
    }
    fn addr(&self) -> usize {
        self.v.as_ptr() as usize + self.start
    }
}

fn sizes(ctx: &Ctx) -> Vec<usize> {
    let mut v = vec![262_144 + 77, 1_048_576 + 33, 2_097_152 + 5];
    if ctx.thorough {
        v.extend([8 * 1_048_576 + 9, 33 * 1_048_576 + 1]);
    }
    v
}

const STARTS: [usize; 9] = [0, 1, 15, 16, 31, 33, 47, 63, 4000];

fn byte_viol(ctx: &Ctx, imp: u8, op: &str, what: &str, exp: &str, obs: &str, spec: &Value) -> Value {
    let config = ctx.config();
    json!({
        "property": ctx.prop, "kind": "large", "family": "bytes", "config": config, "level": ctx.level, "impl": IMPL_NAMES[imp as usize], "op": op,
        "haystack_len": spec["len"], "haystack_shown": format!("{} filler bytes, needle bytes directly outside the slice, planted: {}", spec["len"], spec["pos"]),
        "needles": spec["needles"], "spec": spec, "what": what, "expected": exp, "observed": obs,
        "signature": format!("{}|{}|large|{}|{}|{}", ctx.prop, config, IMPL_NAMES[imp as usize], op, spec),
    })
}

/// `pos == -3`: a dense run of matches behind a clean prefix
const RUN_AT: usize = 200;
const RUN_LEN: usize = 96;

pub const OP_FIND: u8 = 1;
pub const OP_RFIND: u8 = 2;
pub const OP_COUNT: u8 = 4;
pub const OP_ITER: u8 = 8;

fn needle_set(arity: usize) -> &'static [u8] {
    &[b'x', b'Q', 0x07u8][..arity]
}

fn filler(arity: usize, which: usize, fill_kind: u8) -> u8 {
    let needles = needle_set(arity);
    let planted = needles[which % arity];
    let fill = match fill_kind % 3 {
        0 => b'.',
        1 => planted ^ 0x80,
        _ => planted ^ 0x01,
    };
    if needles.contains(&fill) { b'.' } else { fill }
}

/// One byte case on a prepared buffer (filler + decoys). `pos`: >= 0 one planted match (removed again
/// afterwards); -1 none; -2 every byte matches (the buffer must have been filled accordingly).
fn byte_case(ctx: &Ctx, b: &mut Buf, s: usize, arity: usize, which: usize, fill_kind: u8, pos: i64, ops: u8, frag: &mut Frag) -> Option<Value> {
    let needles = needle_set(arity);
    let planted = needles[which % arity];
    let len = b.len;
    let restore = if pos >= 0 { Some(b.hay()[pos as usize]) } else { None };
    if pos >= 0 {
        b.set(pos as usize, planted);
    }
    let run_fill = b.hay()[RUN_AT];
    if pos == -3 {
        for i in RUN_AT..RUN_AT + RUN_LEN {
            b.set(i, planted);
        }
    }
    let spec = json!({"len": len, "s": s, "arity": arity, "which": which, "fill_kind": fill_kind, "pos": pos, "ops": ops, "needles": hex(needles), "start_mod_4096": b.addr() % 4096});
    let r = byte_case_run(ctx, b.hay(), arity, pos, ops, &spec, frag);
    if let Some(old) = restore {
        b.set(pos as usize, old);
    }
    if pos == -3 {
        for i in RUN_AT..RUN_AT + RUN_LEN {
            b.set(i, run_fill);
        }
    }
    r
}

fn byte_case_run(ctx: &Ctx, hay: &[u8], arity: usize, pos: i64, ops: u8, spec: &Value, frag: &mut Frag) -> Option<Value> {
    let needles = needle_set(arity);
    let len = hay.len();
    let (efind, erfind, ecount): (Option<usize>, Option<usize>, usize) = match pos {
        -1 => (None, None, 0),
        -2 => (Some(0), Some(len - 1), len),
        -3 => (Some(RUN_AT), Some(RUN_AT + RUN_LEN - 1), RUN_LEN),
        p => (Some(p as usize), Some(p as usize), 1),
    };
    let judge_values = ctx.prop != "C14";
    for imp in [bytes::TOP, bytes::ALL, bytes::SSE2, bytes::AVX2, bytes::NEON, bytes::SIMD128] {
        let srch = match bytes::make(imp, needles) {
            Some(x) => x,
            None => continue,
        };
        macro_rules! run {
            ($op:expr, $e:expr, $exp:expr) => {{
                frag.evaluations += 1;
                match catch_unwind(AssertUnwindSafe(|| $e)) {
                    Ok(got) => {
                        if judge_values && got != $exp {
                            return Some(byte_viol(ctx, imp, $op, "wrong answer on a large haystack", &format!("{:?}", $exp), &format!("{:?}", got), spec));
                        }
                    }
                    Err(pm) => {
                        return Some(byte_viol(ctx, imp, $op, &format!("panic on a large haystack: {}", panic_msg(&pm)), "no panic", &panic_msg(&pm), spec));
                    }
                }
            }};
        }
        if ops & OP_FIND != 0 {
            run!("find", srch.find(hay), efind);
        }
        if ops & OP_RFIND != 0 {
            run!("rfind", srch.rfind(hay), erfind);
        }
        if ops & OP_COUNT != 0 && arity == 1 {
            run!("count", srch.count(hay), Some(ecount));
        }
        if ops & OP_ITER != 0 && bytes::has_iter(imp) {
            let mut out: Vec<i64> = Vec::with_capacity(8);
            // next, count of a clone, next_back, count of a clone
            let after_first = ecount.saturating_sub(1);
            let exp: Vec<i64> = vec![bytes::enc(efind), after_first as i64, if after_first > 0 { bytes::enc(erfind) } else { -1 }, after_first.saturating_sub(1) as i64];
            run!("iter [next, count, next_back, count]", {
                out.clear();
                srch.iter_run(hay, &[bytes::IT_NEXT, bytes::IT_COUNT, bytes::IT_BACK, bytes::IT_COUNT], &mut out);
                out.clone()
            }, exp);
        }
    }
    None
}

/// Structured single-match positions for one (len, start address).
fn positions(len: usize, addr: usize, rev: bool) -> Vec<i64> {
    let mut v: Vec<i64> = Vec::new();
    let pb = (4096 - addr % 4096) % 4096;
    let pe = len - (addr + len) % 4096; // first byte of the last (partial) page
    if rev {
        v.extend((0..=700usize).map(|k| (len - 1 - k) as i64));
        for d in [pb.wrapping_sub(1), pb, pb + 1, pe.wrapping_sub(1), pe, pe + 1, 0, 1, len / 2] {
            if d < len {
                v.push(d as i64);
            }
        }
    } else {
        v.extend((0..=700usize).map(|k| k as i64));
        for d in [pb.wrapping_sub(1), pb, pb + 1, pb + 4095, pb + 4096, pe.wrapping_sub(1), pe, len / 2, len - 1, len - 2, len - 33, len - 65, len - 129, len - 700] {
            if d < len {
                v.push(d as i64);
            }
        }
    }
    v.sort();
    v.dedup();
    v
}

fn few_positions(len: usize, addr: usize) -> Vec<i64> {
    let pb = (4096 - addr % 4096) % 4096;
    let mut v: Vec<i64> = [0usize, 1, 31, 64, pb.wrapping_sub(1), pb, len / 2, len - 130, len - 33, len - 2, len - 1].iter().filter(|d| **d < len).map(|d| *d as i64).collect();
    v.sort();
    v.dedup();
    v
}

/// All byte cases of one (len, s, arity, which): returns the first violation.
fn byte_combo(ctx: &Ctx, len: usize, s: usize, arity: usize, which: usize, frag: &mut Frag) -> Option<Value> {
    let p = ctx.prop.as_str();
    let all = p == "C14";
    let fill_kind = ((which + s + arity) % 3) as u8;
    let mut b = Buf::new(len, s, filler(arity, which, fill_kind));
    b.decoys(needle_set(arity));
    let addr = b.addr();
    let mut n = 0u64;
    if all || p == "C01" {
        let mut poss = positions(len, addr, false);
        if all {
            poss = poss.into_iter().enumerate().filter(|(i, _)| i % 5 == which).map(|(_, x)| x).collect();
        }
        poss.push(-1);
        poss.push(-3);
        for pos in poss {
            if let Some(v) = byte_case(ctx, &mut b, s, arity, which, fill_kind, pos, OP_FIND, frag) {
                return Some(v);
            }
            n += 1;
        }
    }
    if all || p == "C02" {
        let mut poss = positions(len, addr, true);
        if all {
            poss = poss.into_iter().enumerate().filter(|(i, _)| i % 5 == which).map(|(_, x)| x).collect();
        }
        poss.push(-1);
        poss.push(-3);
        for pos in poss {
            if let Some(v) = byte_case(ctx, &mut b, s, arity, which, fill_kind, pos, OP_RFIND, frag) {
                return Some(v);
            }
            n += 1;
        }
    }
    let ops = match p {
        "C07" => OP_COUNT | OP_ITER,
        "C06" => OP_ITER,
        "C14" => OP_COUNT | OP_ITER,
        _ => 0,
    };
    if ops != 0 {
        let mut poss = few_positions(len, addr);
        poss.push(-1);
        poss.push(-3);
        for pos in poss {
            if let Some(v) = byte_case(ctx, &mut b, s, arity, which, fill_kind, pos, ops, frag) {
                return Some(v);
            }
            n += 1;
        }
    }
    // every byte matches
    if which == 0 {
        let ops = match p {
            "C01" => OP_FIND,
            "C02" => OP_RFIND,
            "C06" => OP_ITER,
            _ => OP_FIND | OP_RFIND | OP_COUNT | OP_ITER,
        };
        let mut d = Buf::new(len, s, needle_set(arity)[0]);
        d.decoys(needle_set(arity));
        if let Some(v) = byte_case(ctx, &mut d, s, arity, which, fill_kind, -2, ops, frag) {
            return Some(v);
        }
        n += 1;
    }
    frag.nontrivial_enum += n;
    None
}

pub fn replay_bytes(ctx: &Ctx, v: &Value) -> Option<Value> {
    let sp = &v["spec"];
    let mut frag = ctx.frag("large");
    let (len, s, arity, which, fill_kind, pos) = (sp["len"].as_u64()? as usize, sp["s"].as_u64()? as usize, sp["arity"].as_u64()? as usize, sp["which"].as_u64()? as usize, sp["fill_kind"].as_u64()? as u8, sp["pos"].as_i64()?);
    let mut b = Buf::new(len, s, if pos == -2 { needle_set(arity)[0] } else { filler(arity, which, fill_kind) });
    b.decoys(needle_set(arity));
    byte_case(ctx, &mut b, s, arity, which, fill_kind, pos, sp["ops"].as_u64()? as u8, &mut frag)
}

// ---------------------------------------------------------------------------
// substring search

fn sub_needles() -> Vec<Vec<u8>> {
    let mut v: Vec<Vec<u8>> = Vec::new();
    for m in [1usize, 2, 3, 8, 31, 32, 33, 64, 65, 300] {
        // distinct-ish letters, rarest bytes at the end
        let mut a: Vec<u8> = (0..m).map(|i| b"etaoinshr"[i % 9]).collect();
        let l = a.len();
        a[l - 1] = b'Z';
        if l >= 2 {
            a[l - 2] = b'Q';
        }
        v.push(a);
        if m >= 2 {
            // periodic
            v.push((0..m).map(|i| b"ab"[i % 2]).collect());
        }
    }
    v
}

fn sub_viol(ctx: &Ctx, op: &str, what: &str, exp: &str, obs: &str, needle: &[u8], spec: &Value) -> Value {
    let config = ctx.config();
    json!({
        "property": ctx.prop, "kind": "large", "family": "sub", "config": config, "level": ctx.level, "impl": "memmem", "op": op,
        "haystack_len": spec["len"], "haystack_shown": format!("{} bytes of filler with partial needles, needle planted at {}", spec["len"], spec["at"]),
        "needles": show(needle), "needle": hex(needle), "spec": spec, "what": what, "expected": exp, "observed": obs,
        "signature": format!("{}|{}|large-sub|{}|{}|{}", ctx.prop, config, op, hex(needle), spec),
    })
}

/// `at`: offsets at which the needle is planted (non-overlapping, ascending).
fn sub_case(ctx: &Ctx, len: usize, s: usize, needle: &[u8], at: &[usize], frag: &mut Frag) -> Option<Value> {
    let m = needle.len();
    let mut b = Buf::new(len, s, b'.');
    // partial needles (all but the last byte, resp. the last two bytes) every ~3 KiB
    let mut i = 1500;
    while i + 2 * m + 4 < len {
        for (k, &c) in needle[..m - 1].iter().enumerate() {
            b.set(i + k, c);
        }
        if m >= 2 {
            for (k, &c) in needle[m - 2..].iter().enumerate() {
                b.set(i + m + 1 + k, c);
            }
            // keep it a non-occurrence: the byte in front of the pair differs from the needle's
            if m >= 3 {
                b.set(i + m, if needle[m - 3] == b'#' { b'%' } else { b'#' });
            }
        }
        i += 3001;
    }
    for &p in at {
        for (k, &c) in needle.iter().enumerate() {
            b.set(p + k, c);
        }
    }
    let hay = b.hay();
    let spec = json!({"len": len, "s": s, "at": at, "start_mod_4096": b.addr() % 4096});
    // the expectation is computed naively (the filler may contain occurrences of 1- and 2-byte needles)
    let exp_f = mvcore::oracle::greedy_fwd(hay, needle);
    let exp_r = mvcore::oracle::greedy_rev(hay, needle);
    let p = ctx.prop.as_str();
    let all = matches!(p, "C14" | "C17");
    let judge_values = p != "C14" && p != "C17";
    macro_rules! run {
        ($op:expr, $e:expr, $exp:expr) => {{
            frag.evaluations += 1;
            match catch_unwind(AssertUnwindSafe(|| armed(|| $e))) {
                Ok((got, allocs)) => {
                    if p == "C17" && allocs != 0 {
                        return Some(sub_viol(ctx, $op, &format!("{} performed {} heap allocation(s) on a large haystack", $op, allocs), "0 allocations", &format!("{} allocations", allocs), needle, &spec));
                    }
                    if judge_values && got != $exp {
                        return Some(sub_viol(ctx, $op, "wrong answer on a large haystack", &format!("{:?}", $exp), &format!("{:?}", got), needle, &spec));
                    }
                }
                Err(pm) => {
                    if p != "C17" {
                        return Some(sub_viol(ctx, $op, &format!("panic on a large haystack: {}", panic_msg(&pm)), "no panic", &panic_msg(&pm), needle, &spec));
                    }
                }
            }
        }};
    }
    let f = Finder::new(needle);
    let fnone = FinderBuilder::new().prefilter(Prefilter::None).build_forward(needle);
    let r = FinderRev::new(needle);
    let mut sink: Vec<usize> = Vec::with_capacity(exp_f.len() + 8);
    if all || p == "C03" {
        run!("Finder::find", f.find(hay), exp_f.first().copied());
        run!("Finder(Prefilter::None)::find", fnone.find(hay), exp_f.first().copied());
        run!("memmem::find", memmem::find(hay, needle), exp_f.first().copied());
        if p == "C17" || p == "C14" {
            run!("twoway::Finder::find", memchr::arch::all::twoway::Finder::new(needle).find(hay, needle), exp_f.first().copied());
        }
    }
    if all || p == "C04" {
        run!("FinderRev::rfind", r.rfind(hay), exp_r.first().copied());
        run!("memmem::rfind", memmem::rfind(hay, needle), exp_r.first().copied());
    }
    if all || p == "C08" {
        run!("Finder::find_iter", {
            sink.clear();
            for x in f.find_iter(hay).take(exp_f.len() + 4) {
                sink.push(x);
            }
            sink == exp_f
        }, true);
        run!("Finder(Prefilter::None)::find_iter", {
            sink.clear();
            for x in fnone.find_iter(hay).take(exp_f.len() + 4) {
                sink.push(x);
            }
            sink == exp_f
        }, true);
        run!("FinderRev::rfind_iter", {
            sink.clear();
            for x in r.rfind_iter(hay).take(exp_r.len() + 4) {
                sink.push(x);
            }
            sink == exp_r
        }, true);
    }
    None
}

pub fn replay_sub(ctx: &Ctx, v: &Value) -> Option<Value> {
    let sp = &v["spec"];
    let needle = unhex(v["needle"].as_str()?);
    let at: Vec<usize> = sp["at"].as_array()?.iter().filter_map(|x| x.as_u64().map(|y| y as usize)).collect();
    let mut frag = ctx.frag("large");
    sub_case(ctx, sp["len"].as_u64()? as usize, sp["s"].as_u64()? as usize, &needle, &at, &mut frag)
}

pub fn replay(ctx: &Ctx, v: &Value) -> Option<Value> {
    if v["family"].as_str() == Some("sub") {
        replay_sub(ctx, v)
    } else {
        replay_bytes(ctx, v)
    }
}

pub fn large(ctx: &Ctx) -> Frag {
    let mut frag = ctx.frag("large");
    let p = ctx.prop.clone();
    let bytes_props = ["C01", "C02", "C06", "C07", "C14"];
    let sub_props = ["C03", "C04", "C08", "C14", "C17"];
    let emu = mvcore::cfgs::cfg_emu();
    let mut idx = 0usize;
    if bytes_props.contains(&p.as_str()) {
        for (li, &len) in sizes(ctx).iter().enumerate() {
            if emu && li > 0 {
                continue; // the emulated vectors are slow: smallest size only
            }
            for &s in STARTS.iter() {
                for arity in 1..=3usize {
                    for which in 0..arity {
                        idx += 1;
                        if !ctx.mine(idx) {
                            continue;
                        }
                        if let Some(v) = byte_combo(ctx, len, s, arity, which, &mut frag) {
                            frag.violation(v);
                            return frag;
                        }
                        frag.class(&format!("byte search, {} KiB", len / 1024));
                    }
                }
            }
        }
        frag.subspaces.push(json!({"what": "large byte haystacks", "sizes": sizes(ctx), "start_offsets_after_a_page_boundary_plus_128": STARTS,
            "needle_sets": "1..=3 needles, each of them planted in turn",
            "planted": "none; every byte; one match at 0..=700 from the scanned-from end, around the first and last page boundary inside the haystack, middle, last bytes",
            "outside": "64 needle bytes directly in front of and behind the slice", "filler": "'.', needle^0x80, needle^0x01"}));
    }
    if sub_props.contains(&p.as_str()) && !emu {
        let needles = sub_needles();
        let szs: Vec<usize> = if ctx.thorough { sizes(ctx) } else { vec![1_048_576 + 33, 2_097_152 + 5] };
        for &len in szs.iter() {
            for (si, &s) in [0usize, 1, 31, 47].iter().enumerate() {
                for (ni, needle) in needles.iter().enumerate() {
                    idx += 1;
                    if !ctx.mine(idx) {
                        continue;
                    }
                    // the C17 probe needs every (needle, size) once; the value checks rotate the placements
                    let m = needle.len();
                    let placements: Vec<Vec<usize>> = vec![vec![], vec![0], vec![1, len / 2], vec![len - m], vec![len - m - 1], vec![len / 3, len - m]];
                    for (pi, at) in placements.iter().enumerate() {
                        if p != "C17" && (pi + ni + si) % 3 != 0 {
                            continue;
                        }
                        if p == "C17" && pi != (ni + si) % placements.len() {
                            continue;
                        }
                        if let Some(v) = sub_case(ctx, len, s, needle, at, &mut frag) {
                            frag.violation(v);
                            return frag;
                        }
                        frag.nontrivial_enum += 1;
                    }
                    frag.class(&format!("substring search, {} KiB", len / 1024));
                }
            }
        }
    }
    frag.sample(json!({"stage":"large","what":"haystacks of 256 KiB - 2 MiB (thorough: up to 33 MiB) at 9 start alignments; needle bytes directly outside the slice; one planted match / none / all; substring needles of 1..300 bytes planted at the start, middle and very end of 1-2 MiB haystacks carrying partial needles"}));
    frag
}
