//! C17: searching performs no heap allocation. A counting global allocator
//! (installed in main.rs) is armed around each API call.

use crate::ctx::Ctx;
use crate::journal;
use crate::report::{hex, show, unhex, Frag};
use crate::subcheck::{event_names, events_take};
use crate::subgen::{self, SubCase};
use memchr::memmem::{self, Finder, FinderBuilder, FinderRev, Prefilter};
use mvcore::subs::{self, Ranker};
use proptest::prelude::*;
use serde_json::{json, Value};
use std::alloc::{GlobalAlloc, Layout, System};
use std::cell::RefCell;
use std::sync::atomic::{AtomicBool, AtomicU64, Ordering::Relaxed};

pub struct Counting;

static ARMED: AtomicBool = AtomicBool::new(false);
static ALLOCS: AtomicU64 = AtomicU64::new(0);
static BYTES: AtomicU64 = AtomicU64::new(0);

unsafe impl GlobalAlloc for Counting {
    unsafe fn alloc(&self, l: Layout) -> *mut u8 {
        if ARMED.load(Relaxed) {
            ALLOCS.fetch_add(1, Relaxed);
            BYTES.fetch_add(l.size() as u64, Relaxed);
        }
        System.alloc(l)
    }
    unsafe fn dealloc(&self, p: *mut u8, l: Layout) {
        System.dealloc(p, l)
    }
    unsafe fn alloc_zeroed(&self, l: Layout) -> *mut u8 {
        if ARMED.load(Relaxed) {
            ALLOCS.fetch_add(1, Relaxed);
            BYTES.fetch_add(l.size() as u64, Relaxed);
        }
        System.alloc_zeroed(l)
    }
    unsafe fn realloc(&self, p: *mut u8, l: Layout, n: usize) -> *mut u8 {
        if ARMED.load(Relaxed) {
            ALLOCS.fetch_add(1, Relaxed);
            BYTES.fetch_add(n as u64, Relaxed);
        }
        System.realloc(p, l, n)
    }
}

/// Runs `f` with the probe armed; returns its result and the number of
/// allocations it performed. `f` must not allocate on the harness' behalf.
#[inline(never)]
pub fn armed<T>(f: impl FnOnce() -> T) -> (T, u64) {
    let before = ALLOCS.load(Relaxed);
    ARMED.store(true, Relaxed);
    let r = f();
    ARMED.store(false, Relaxed);
    (r, ALLOCS.load(Relaxed) - before)
}

fn viol(ctx: &Ctx, call: &str, allocs: u64, needle: &[u8], hay: &[u8]) -> Value {
    let config = ctx.config();
    json!({
        "property": ctx.prop, "kind": "alloc", "config": config, "level": ctx.level, "impl": "memchr", "op": call,
        "needle": hex(needle), "needles": show(needle), "haystack": hex(hay), "haystack_len": hay.len(), "haystack_shown": show(hay),
        "expected": "0 allocations", "observed": format!("{} allocations", allocs), "what": format!("{} performed {} heap allocation(s)", call, allocs),
        "signature": format!("{}|{}|alloc|{}|{}|{}", ctx.prop, config, call, hex(needle), hex(hay)),
    })
}

/// Every stated API call on one (needle, haystack); first offender wins.
pub fn probe(ctx: &Ctx, needle: &[u8], hay: &[u8], table: &[u8; 256], calls: &mut u64) -> Option<Value> {
    macro_rules! chk {
        ($name:expr, $e:expr) => {{
            *calls += 1;
            let (r, a) = armed(|| $e);
            if a != 0 {
                return Some(viol(ctx, $name, a, needle, hay));
            }
            r
        }};
    }
    let f = chk!("Finder::new", Finder::new(needle));
    let r = chk!("FinderRev::new", FinderRev::new(needle));
    let fnone = chk!("FinderBuilder::prefilter(None).build_forward", FinderBuilder::new().prefilter(Prefilter::None).build_forward(needle));
    let _frev = chk!("FinderBuilder::build_reverse", FinderBuilder::new().build_reverse(needle));
    let rk = Ranker::new(subs::RK_TABLE, table, needle);
    let frk = chk!("FinderBuilder::build_forward_with_ranker", FinderBuilder::new().build_forward_with_ranker(&rk, needle));
    chk!("Finder::find", f.find(hay));
    // reuse of one finder: the second, third ... call must not allocate either (lazily built helpers)
    chk!("Finder::find (2nd call on the same finder)", f.find(hay));
    chk!("Finder::find (3rd call on the same finder, 40-byte prefix)", f.find(&hay[..hay.len().min(40)]));
    chk!("Finder::find (4th call on the same finder)", f.find(hay));
    chk!("Finder(Prefilter::None)::find", fnone.find(hay));
    chk!("Finder(custom ranker)::find", frk.find(hay));
    chk!("FinderRev::rfind", r.rfind(hay));
    chk!("FinderRev::rfind (2nd call on the same finder)", r.rfind(hay));
    chk!("FinderRev::rfind (3rd call on the same finder, 40-byte prefix)", r.rfind(&hay[..hay.len().min(40)]));
    chk!("memmem::find", memmem::find(hay, needle));
    chk!("memmem::rfind", memmem::rfind(hay, needle));
    chk!("Finder::find_iter (complete traversal)", {
        let mut k = 0usize;
        for _ in f.find_iter(hay) {
            k += 1;
        }
        k
    });
    chk!("FinderRev::rfind_iter (complete traversal)", {
        let mut k = 0usize;
        for _ in r.rfind_iter(hay) {
            k += 1;
        }
        k
    });
    chk!("memmem::find_iter (complete traversal)", memmem::find_iter(hay, needle).count());
    chk!("memmem::rfind_iter (complete traversal)", memmem::rfind_iter(hay, needle).count());
    chk!("Finder::as_ref + clone", {
        let a = f.as_ref();
        let c = a.clone();
        c.find(hay)
    });
    // finders that own their needle: the conversion itself may allocate (it is made with the probe
    // disarmed), nothing that is done with the owned finder afterwards may - in particular as_ref()
    // and the iterators, which re-borrow the owned needle
    let fo = Finder::new(needle).into_owned();
    let ro = FinderRev::new(needle).into_owned();
    chk!("owned Finder::find", fo.find(hay));
    chk!("owned FinderRev::rfind", ro.rfind(hay));
    chk!("owned Finder::find_iter (complete traversal)", fo.find_iter(hay).count());
    chk!("owned FinderRev::rfind_iter (complete traversal)", ro.rfind_iter(hay).count());
    chk!("owned Finder::as_ref().find", fo.as_ref().find(hay));
    chk!("owned FinderRev::as_ref().rfind", ro.as_ref().rfind(hay));
    chk!("owned Finder::needle / FinderRev::needle", fo.needle().len() + ro.needle().len());
    let n1 = needle.first().copied().unwrap_or(b'a');
    let n2 = needle.get(1).copied().unwrap_or(b'b');
    let n3 = needle.last().copied().unwrap_or(b'c');
    chk!("memchr", memchr::memchr(n1, hay));
    chk!("memrchr", memchr::memrchr(n1, hay));
    chk!("memchr2", memchr::memchr2(n1, n2, hay));
    chk!("memrchr2", memchr::memrchr2(n1, n2, hay));
    chk!("memchr3", memchr::memchr3(n1, n2, n3, hay));
    chk!("memrchr3", memchr::memrchr3(n1, n2, n3, hay));
    chk!("memchr_iter (next/next_back/count)", {
        let mut it = memchr::memchr_iter(n1, hay);
        let a = it.next();
        let b = it.next_back();
        (a, b, it.count())
    });
    chk!("memchr2_iter", memchr::memchr2_iter(n1, n2, hay).count());
    chk!("memchr3_iter + memrchr3_iter", memchr::memchr3_iter(n1, n2, n3, hay).count() + memchr::memrchr3_iter(n1, n2, n3, hay).count());
    chk!("memrchr_iter + memrchr2_iter (next/next_back/size_hint)", {
        let mut a = memchr::memrchr_iter(n1, hay);
        let mut b = memchr::memrchr2_iter(n1, n2, hay);
        (a.next(), a.next_back(), a.size_hint(), b.next(), b.count())
    });
    // the architecture-level byte searchers of this configuration (arch::all, sse2, avx2, neon, simd128);
    // the searcher is boxed by the harness outside the armed region, its calls are armed
    let mut out: Vec<i64> = Vec::with_capacity(64);
    for imp in [mvcore::bytes::ALL, mvcore::bytes::SSE2, mvcore::bytes::AVX2, mvcore::bytes::NEON, mvcore::bytes::SIMD128] {
        for arity in 1..=3usize {
            let ns = [n1, n2, n3];
            if let Some(b) = mvcore::bytes::make(imp, &ns[..arity]) {
                chk!("arch-level byte searcher find / rfind / count", (b.find(hay), b.rfind(hay), b.count(hay)));
                if mvcore::bytes::has_iter(imp) {
                    out.clear();
                    chk!("arch-level byte searcher iterator (next, next_back, count of a clone, size_hint)", b.iter_run(hay, &[mvcore::bytes::IT_NEXT, mvcore::bytes::IT_BACK, mvcore::bytes::IT_COUNT, mvcore::bytes::IT_HINT, mvcore::bytes::IT_NEXT], &mut out));
                }
            }
        }
    }
    // the substring building blocks: construction and search
    if !needle.is_empty() {
        use memchr::arch::all::{packedpair, rabinkarp, twoway};
        let tw = chk!("twoway::Finder::new", twoway::Finder::new(needle));
        let twr = chk!("twoway::FinderRev::new", twoway::FinderRev::new(needle));
        let rkf = chk!("rabinkarp::Finder::new", rabinkarp::Finder::new(needle));
        let rkr = chk!("rabinkarp::FinderRev::new", rabinkarp::FinderRev::new(needle));
        chk!("twoway::Finder::find", tw.find(hay, needle));
        chk!("twoway::FinderRev::rfind", twr.rfind(hay, needle));
        chk!("rabinkarp::Finder::find", rkf.find(hay, needle));
        chk!("rabinkarp::FinderRev::rfind", rkr.rfind(hay, needle));
        chk!("packedpair::Pair::new", packedpair::Pair::new(needle));
        if let Some(pp) = chk!("all::packedpair::Finder::new", packedpair::Finder::new(needle)) {
            chk!("all::packedpair::Finder::find_prefilter", pp.find_prefilter(hay));
        }
    }
    None
}

pub fn c17(ctx: &Ctx) -> Frag {
    let mut frag = ctx.frag("alloc-proptest");
    // 1. the very first call of the process (CPU feature detection) must not allocate either
    let (_, a0) = armed(|| memchr::memchr(b'z', b"the first search of this process"));
    let (_, a1) = armed(|| memmem::find(b"the first substring search of this process, long enough for the vector path ........", b"vector"));
    if a0 != 0 || a1 != 0 {
        frag.violation(viol(ctx, "first call in a fresh process (CPU detection)", a0 + a1, b"z", b"the first search of this process"));
        return frag;
    }
    // 2. positive controls: the probe must see the documented allocating operations
    let (_, pc1) = armed(|| Finder::new(b"control").into_owned());
    let (_, pc2) = armed(|| memchr::arch::all::shiftor::Finder::new(b"control"));
    if pc1 == 0 || pc2 == 0 {
        frag.notes.push(format!("allocation probe is blind: into_owned -> {} allocations, shiftor::Finder::new -> {}", pc1, pc2));
        frag.extra.insert("probe_broken".into(), json!(1));
        frag.required_classes.push("allocation probe positive control".into());
        frag.classes.insert("allocation probe positive control".into(), 0);
        return frag;
    }
    frag.class("allocation probe positive control");
    frag.require(&["allocation probe positive control", "needle >= 2 and haystack >= 16"]);
    let cases = ctx.n(150_000, 2_000_000);
    let cases = if mvcore::cfgs::cfg_emu() { cases / 4 } else { cases } as u32;
    struct St {
        frag: Frag,
        failed: Option<Value>,
        calls: u64,
    }
    let st = RefCell::new(St { frag, failed: None, calls: 0 });
    let mut runner = crate::ctx::runner(ctx.stream_seed("alloc-proptest"), cases);
    let strat = (prop_oneof![3 => subgen::sub_case(), 1 => subgen::phase_case(), 1 => subgen::short_fallback_case()], any::<u64>());
    let res = runner.run(&strat, |(c, tseed): (SubCase, u64)| {
        let mut s = st.borrow_mut();
        let s = &mut *s;
        let mut table = [0u8; 256];
        let mut x = tseed | 1;
        for t in table.iter_mut() {
            x ^= x << 13;
            x ^= x >> 7;
            x ^= x << 17;
            *t = (x >> 24) as u8;
        }
        journal::set_ctx(&format!("{{\"stage\":\"alloc\",\"needle\":\"{}\",\"hay\":\"{}\"}}", hex(&c.needle), hex(&c.hay)));
        let _ = events_take();
        let mut calls = 0;
        let r = probe(ctx, &c.needle, &c.hay, &table, &mut calls);
        if s.failed.is_none() {
            s.frag.evaluations += 1;
            s.calls += calls;
            if c.needle.len() >= 2 && c.hay.len() >= 16 {
                s.frag.class("needle >= 2 and haystack >= 16");
                s.frag.nontrivial_hashes.insert(mvcore::oracle::fnv(&[&c.needle, &c.hay]));
                if s.frag.want_sample() && c.hay.len() < 160 && c.needle.len() < 30 {
                    s.frag.sample(json!({"stage":"alloc","needle":show(&c.needle),"haystack":show(&c.hay),"api_calls_probed":calls,"allocations":0}));
                }
            }
            for e in event_names(events_take()) {
                s.frag.class(&format!("event: {}", e));
            }
        }
        if let Some(v) = r {
            s.failed = Some(v);
            return Err(TestCaseError::fail("violation"));
        }
        Ok(())
    });
    let mut s = st.into_inner();
    if let Err(e) = &res {
        if let Some(v) = s.failed.take() {
            s.frag.violation(v);
        } else {
            s.frag.notes.push(format!("proptest aborted without a recorded violation: {}", e.to_string().chars().take(500).collect::<String>()));
        }
    }
    s.frag.extra.insert("api_calls_probed".into(), json!(s.calls));
    s.frag.notes.push(format!("positive control: into_owned -> {} allocation(s), shiftor::Finder::new -> {}", pc1, pc2));
    s.frag
}

pub fn replay(ctx: &Ctx, v: &Value) -> Option<Value> {
    let needle = unhex(v["needle"].as_str().unwrap_or(""));
    let hay = unhex(v["haystack"].as_str().unwrap_or(""));
    let table = [7u8; 256];
    let mut calls = 0;
    probe(ctx, &needle, &hay, &table, &mut calls)
}
