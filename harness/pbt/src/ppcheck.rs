//! Packed-pair finders with explicit index pairs: C11 (candidates), C12
//! (find), C14 (the documented panic, exactly below min_haystack_len), C05
//! (checked loads / guard pages), C19 (finders report their pair).

use crate::arena::{Arena, Place};
use crate::bytecheck::{panic_msg, place_json};
use crate::ctx::Ctx;
use crate::journal;
use crate::report::{hex, show, unhex, Frag};
use crate::subcheck::{judge_candidate, sub_viol};
use crate::subgen::{self, foreign_byte, NeedleSpec};
use memchr::arch::all::packedpair::Pair;
use mvcore::oracle;
use mvcore::subs::{self, PackedPair};
use proptest::prelude::*;
use serde_json::{json, Value};
use std::cell::RefCell;
use std::panic::{catch_unwind, AssertUnwindSafe};

#[derive(Clone, Copy)]
pub struct PpMode {
    pub find: bool,
    pub prefilter: bool,
    pub below_min: bool,
    pub judge_values: bool,
    pub judge_region: bool,
    /// spurious (haystack >= minimum) and missing (haystack < minimum) panics
    pub judge_panics: bool,
}

pub fn mode_for(prop: &str) -> PpMode {
    match prop {
        "C11" => PpMode { find: false, prefilter: true, below_min: false, judge_values: true, judge_region: false, judge_panics: true },
        "C12" => PpMode { find: true, prefilter: false, below_min: false, judge_values: true, judge_region: false, judge_panics: true },
        "C05" => PpMode { find: true, prefilter: true, below_min: true, judge_values: false, judge_region: true, judge_panics: false },
        "C14" => PpMode { find: true, prefilter: true, below_min: true, judge_values: false, judge_region: false, judge_panics: true },
        _ => PpMode { find: true, prefilter: true, below_min: true, judge_values: true, judge_region: false, judge_panics: true },
    }
}

fn region_on(hay: &[u8]) {
    #[cfg(memchr_verif)]
    memchr::verif::region_set(hay.as_ptr() as usize, hay.as_ptr() as usize + hay.len());
    let _ = hay;
}

fn region_off() {
    #[cfg(memchr_verif)]
    memchr::verif::region_clear();
}

fn region_take() -> Option<(u64, usize, usize, u8)> {
    #[cfg(memchr_verif)]
    {
        let r = memchr::verif::region_take_violation();
        if r.0 > 0 {
            return Some(r);
        }
    }
    None
}

#[derive(Default)]
pub struct PpStats {
    pub calls: u64,
    pub panics_expected: u64,
    pub last_chunk: u64,
}

/// Judge one finder on one placed haystack.
pub fn check_pp(
    ctx: &Ctx,
    mode: PpMode,
    imp: u8,
    f: &dyn PackedPair,
    needle: &[u8],
    hay: &[u8],
    place: Place,
    st: &mut PpStats,
) -> Option<Value> {
    let name = subs::sub_name(imp);
    let min = f.min_haystack_len();
    let pair = f.pair();
    let opsuffix = format!("[{},{}]", pair.0, pair.1);
    if mode.judge_region {
        region_on(hay);
    }
    let mut out: Option<Value> = None;
    if hay.len() >= min {
        let e = oracle::naive_find(hay, needle);
        if mode.find {
            st.calls += 1;
            match catch_unwind(AssertUnwindSafe(|| f.find(hay, needle))) {
                Ok(Some(r)) => {
                    if mode.judge_values && r != e {
                        out = Some(sub_viol(ctx, name, &format!("find{}", opsuffix), needle, hay, place, &format!("{:?}", e), &format!("{:?}", r), "wrong answer"));
                    }
                }
                Ok(None) => {}
                Err(_) if !mode.judge_panics => {}
                Err(p) => {
                    out = Some(sub_viol(ctx, name, &format!("find{}", opsuffix), needle, hay, place, "no panic (haystack >= min_haystack_len)", &panic_msg(&p), &format!("spurious panic: haystack of {} bytes, min_haystack_len {}: {}", hay.len(), min, panic_msg(&p))));
                }
            }
        }
        if out.is_none() && mode.prefilter {
            st.calls += 1;
            match catch_unwind(AssertUnwindSafe(|| f.find_prefilter(hay))) {
                Ok(c) => {
                    if mode.judge_values {
                        out = judge_candidate(ctx, imp, pair, needle, hay, place, e, c);
                    }
                }
                Err(_) if !mode.judge_panics => {}
                Err(p) => {
                    out = Some(sub_viol(ctx, name, &format!("find_prefilter{}", opsuffix), needle, hay, place, "no panic (haystack >= min_haystack_len)", &panic_msg(&p), &format!("spurious panic: haystack of {} bytes, min_haystack_len {}: {}", hay.len(), min, panic_msg(&p))));
                }
            }
        }
    } else if mode.below_min && min > 0 {
        // documented: panics
        st.panics_expected += 1;
        let r1 = catch_unwind(AssertUnwindSafe(|| f.find(hay, needle)));
        if mode.judge_panics {
            if let Ok(r) = &r1 {
                out = Some(sub_viol(ctx, name, &format!("find{}", opsuffix), needle, hay, place, "panic (haystack < min_haystack_len)", &format!("returned {:?}", r), &format!("missing panic: haystack of {} bytes is below min_haystack_len {}", hay.len(), min)));
            }
        }
        let r2 = catch_unwind(AssertUnwindSafe(|| f.find_prefilter(hay)));
        if mode.judge_panics && out.is_none() {
            if let Ok(r) = &r2 {
                out = Some(sub_viol(ctx, name, &format!("find_prefilter{}", opsuffix), needle, hay, place, "panic (haystack < min_haystack_len)", &format!("returned {:?}", r), &format!("missing panic: haystack of {} bytes is below min_haystack_len {}", hay.len(), min)));
            }
        }
    }
    if mode.judge_region {
        if let Some(rv) = region_take() {
            let start = hay.as_ptr() as usize;
            let what = format!("vector load of {} bytes at haystack offset {} reaches outside the {}-byte haystack ({} such loads; min_haystack_len {})", rv.2, rv.1 as i64 - start as i64, hay.len(), rv.0, min);
            out = Some(sub_viol(ctx, name, &format!("checked-load{}", opsuffix), needle, hay, place, "all loads inside the haystack", &what, &what));
        }
        region_off();
    }
    out
}

fn words(alpha: &[u8], len: usize) -> Vec<Vec<u8>> {
    let mut cur: Vec<Vec<u8>> = vec![vec![]];
    for _ in 0..len {
        let mut next = Vec::with_capacity(cur.len() * alpha.len());
        for w in cur.iter() {
            for &c in alpha {
                let mut v = w.clone();
                v.push(c);
                next.push(v);
            }
        }
        cur = next;
    }
    cur
}

/// Small vectors + the portable prefilter: all needles of length 2..=5 over
/// {a,b} ({a,b,c} up to 4), all index pairs, all haystacks up to a bound.
pub fn exhaustive(ctx: &Ctx, mode: PpMode) -> Frag {
    let mut frag = ctx.frag("pp-exhaustive");
    let hmax = if ctx.thorough { 16 } else { 13 };
    let mut arena = Arena::new(4);
    let mut st = PpStats::default();
    let mut group = 0;
    let imps = [subs::S_PP_SMALL4, subs::S_PP_SMALL8, subs::S_PP_ALL];
    'outer: for (alpha, nmax, hm) in [(&b"ab"[..], 5usize, hmax), (&b"abc"[..], 4usize, hmax - 4)] {
        let mut hays: Vec<Vec<u8>> = Vec::new();
        for l in 0..=hm {
            hays.extend(words(alpha, l));
        }
        for nlen in 2..=nmax {
            for needle in words(alpha, nlen) {
                for i1 in 0..nlen {
                    for i2 in 0..nlen {
                        if i1 == i2 {
                            continue;
                        }
                        group += 1;
                        if !ctx.mine(group) {
                            continue;
                        }
                        let pair = Pair::with_indices(&needle, i1 as u8, i2 as u8).expect("valid pair");
                        journal::set_ctx(&format!("{{\"stage\":\"pp-exhaustive\",\"needle\":\"{}\",\"pair\":[{},{}]}}", hex(&needle), i1, i2));
                        for &imp in imps.iter() {
                            let f = match subs::make_pp(imp, &needle, Some(pair)) {
                                Ok(Some(f)) => f,
                                _ => continue,
                            };
                            for (hi, h) in hays.iter().enumerate() {
                                let place = match hi % 3 {
                                    0 => Place::End,
                                    1 => Place::Start,
                                    _ => Place::Mid(hi % 64),
                                };
                                // far below the minimum every call is the same documented panic
                                if h.len() + 2 < f.min_haystack_len() {
                                    continue;
                                }
                                // the documented panic depends on the length only: a sample of contents is enough
                                if h.len() < f.min_haystack_len() && hi % 32 != 0 {
                                    continue;
                                }
                                let hp = arena.put(h, place);
                                frag.evaluations += 1;
                                if h.len() >= f.min_haystack_len() && h.len() >= nlen {
                                    frag.nontrivial_enum += 1;
                                }
                                if let Some(v) = check_pp(ctx, mode, imp, &*f, &needle, hp, place, &mut st) {
                                    frag.violation(v);
                                    break 'outer;
                                }
                            }
                        }
                    }
                }
            }
        }
    }
    frag.extra.insert("packed_pair_calls".into(), json!(st.calls));
    frag.extra.insert("below_minimum_cases".into(), json!(st.panics_expected));
    frag.sample(json!({"stage":"pp-exhaustive","enumerated":format!("needles of length 2..=5 over {{a,b}} and 2..=4 over {{a,b,c}} x every ordered pair of distinct offsets x every haystack up to length {} ({} ternary), on the 4- and 8-lane checked vectors and the portable prefilter", hmax, hmax - 4)}));
    frag.subspaces.push(json!({"what":"generic packed pair on scaled-down vectors + portable prefilter","binary_haystack_max":hmax,"ternary_haystack_max":hmax-4,"all_index_pairs":true,"exhaustive_within_bounds":true}));
    frag
}

#[derive(Clone, Debug)]
pub struct PpCase {
    pub needle: Vec<u8>,
    pub i1: usize,
    pub i2: usize,
    pub hay: Vec<u8>,
    pub kind: u8,
}

pub fn pp_case() -> impl Strategy<Value = PpCase> {
    let nlen = prop_oneof![
        4 => 2usize..=8,
        4 => 2usize..=40,
        2 => 33usize..=300,
    ];
    (
        (0u8..12, nlen, any::<u8>(), any::<u8>(), 1usize..=8, any::<u64>()),
        (any::<u16>(), any::<u16>(), 0u8..4),
        // haystack layout
        (0u8..8, any::<u16>(), any::<u16>(), any::<u16>(), any::<u64>()),
    )
        .prop_map(|((kind, len, a, b, ulen, bits), (f1, f2, big), (layout, extra, pos, cut, hbits))| {
            let b = if a == b { a.wrapping_add(1) } else { b };
            let needle = subgen::build_needle(&NeedleSpec { kind, len, a, b, ulen, bits });
            let n = needle.len();
            let lim = n.min(255);
            let fr = |f: u16, m: usize| ((f as u64 * m as u64) >> 16) as usize;
            // index choice: anywhere / both high / far apart / adjacent
            let (mut i1, mut i2) = match big {
                0 => (fr(f1, lim), fr(f2, lim)),
                1 => (lim - 1 - fr(f1, lim.min(4)), fr(f2, lim)),
                2 => (0, lim - 1),
                _ => (fr(f1, lim), (fr(f1, lim) + 1) % lim),
            };
            if i1 == i2 {
                i2 = (i1 + 1) % lim;
            }
            if hbits & 1 == 1 {
                std::mem::swap(&mut i1, &mut i2);
            }
            let maxidx = i1.max(i2);
            let fb = foreign_byte(&needle, 0xA5);
            // total length relative to the largest minimum (AVX2: maxidx + 32)
            let base = n.max(maxidx + 32);
            let total = match layout % 4 {
                0 => base + fr(extra, 4),
                1 => base + fr(extra, 70),
                2 => base + fr(extra, 400),
                _ => n.max(maxidx + 4) + fr(extra, 40), // around the small-vector / SSE2 minimum: below the AVX2 one
            };
            let mut hay = vec![fb; total];
            // partial pair hits: byte1 at its offset without byte2, and vice versa
            let mut x = hbits | 1;
            let mut rnd = || {
                x ^= x << 13;
                x ^= x >> 7;
                x ^= x << 17;
                x
            };
            let nhits = (rnd() % 6) as usize;
            for _ in 0..nhits {
                let p = rnd() as usize % total;
                if rnd() & 1 == 0 {
                    if p + i1 < total {
                        hay[p + i1] = needle[i1];
                    }
                } else if p + i2 < total {
                    hay[p + i2] = needle[i2];
                }
            }
            // full pair hits that are not occurrences
            if layout & 4 != 0 {
                for _ in 0..(rnd() % 4) {
                    let p = rnd() as usize % total;
                    if p + maxidx < total {
                        hay[p + i1] = needle[i1];
                        hay[p + i2] = needle[i2];
                    }
                }
            }
            // an occurrence (3 of 4 cases): anywhere / at the last offset / within the final vector / at 0
            if total >= n && layout != 7 {
                let last = total - n;
                let at = match pos % 5 {
                    0 => fr(pos, last + 1),
                    1 => last,
                    2 => last - fr(cut, last.min(33) + 1).min(last),
                    3 => 0,
                    _ => last - fr(cut, last.min(n) + 1).min(last),
                };
                hay[at..at + n].copy_from_slice(&needle);
            }
            PpCase { needle, i1, i2, hay, kind: layout }
        })
}

pub fn pbt(ctx: &Ctx, mode: PpMode) -> Frag {
    let mut frag = ctx.frag("pp-proptest");
    let cases = ctx.n(250_000, 4_000_000);
    let cases = if mvcore::cfgs::cfg_emu() { cases / 3 } else { cases } as u32;
    frag.require(&["occurrence within the last 16 bytes", "index >= 128", "index1 > index2", "first occurrence preceded by a full false pair hit"]);
    struct St {
        frag: Frag,
        failed: Option<Value>,
        stats: PpStats,
    }
    let st = RefCell::new(St { frag, failed: None, stats: PpStats::default() });
    let arena = RefCell::new(Arena::new(6));
    let mut runner = crate::ctx::runner(ctx.stream_seed("pp-proptest"), cases);
    let res = runner.run(&pp_case(), |c| {
        let mut s = st.borrow_mut();
        let s = &mut *s;
        let counting = s.failed.is_none();
        let pair = match Pair::with_indices(&c.needle, c.i1 as u8, c.i2 as u8) {
            Some(p) => p,
            None => return Ok(()),
        };
        let code = oracle::fnv(&[&c.needle, &c.hay, &[c.i1 as u8, c.i2 as u8]]);
        let place = match code % 5 {
            0 | 1 => Place::End,
            2 => Place::Start,
            _ => Place::Mid((code >> 8) as usize % 64),
        };
        journal::set_ctx(&format!("{{\"stage\":\"pp-proptest\",\"needle\":\"{}\",\"pair\":[{},{}],\"hay\":\"{}\",\"place\":{}}}", hex(&c.needle), c.i1, c.i2, hex(&c.hay), place_json(place)));
        // every haystack is also tried cut down to each side of every implementation's minimum
        let n = c.needle.len();
        let maxidx = c.i1.max(c.i2);
        let mut lens: Vec<usize> = vec![c.hay.len()];
        if mode.below_min {
            for v in [4usize, 8, 16, 32] {
                let m = n.max(maxidx + v);
                for d in [-2i64, -1, 0, 1] {
                    let l = m as i64 + d;
                    if l >= 0 && (l as usize) <= c.hay.len() {
                        lens.push(l as usize);
                    }
                }
            }
            lens.push(0);
            lens.sort_unstable();
            lens.dedup();
        }
        if counting {
            s.frag.evaluations += 1;
            let e = oracle::naive_find(&c.hay, &c.needle);
            let mut nt = false;
            if let Some(e) = e {
                nt = true;
                if e + n + 16 > c.hay.len() {
                    s.frag.class("occurrence within the last 16 bytes");
                }
                // a full pair hit strictly before the occurrence
                let mut p = 0;
                while p < e {
                    if c.hay.get(p + c.i1) == Some(&c.needle[c.i1]) && c.hay.get(p + c.i2) == Some(&c.needle[c.i2]) {
                        s.frag.class("first occurrence preceded by a full false pair hit");
                        break;
                    }
                    p += 1;
                }
            } else {
                s.frag.class("needle absent");
            }
            if maxidx >= 128 {
                s.frag.class("index >= 128");
                nt = true;
            }
            if c.i1 > c.i2 {
                s.frag.class("index1 > index2");
            }
            if nt {
                s.frag.nontrivial_hashes.insert(code);
            }
            if s.frag.want_sample() && n < 24 && c.hay.len() < 120 && e.is_some() {
                s.frag.sample(json!({"stage":"pp-proptest","needle":show(&c.needle),"pair":[c.i1,c.i2],"haystack":show(&c.hay),"first":e,"layout":c.kind}));
            }
        }
        let mut ar = arena.borrow_mut();
        for &imp in subs::PP_IMPLS.iter() {
            let f = match catch_unwind(AssertUnwindSafe(|| subs::make_pp(imp, &c.needle, Some(pair)))) {
                Ok(Ok(Some(f))) => f,
                Ok(_) => continue,
                Err(_) if !mode.judge_panics => continue,
                Err(p) => {
                    s.failed = Some(sub_viol(ctx, subs::sub_name(imp), "with_pair", &c.needle, &c.hay, place, "no panic", &panic_msg(&p), &format!("constructor panicked: {}", panic_msg(&p))));
                    return Err(TestCaseError::fail("violation"));
                }
            };
            for &l in lens.iter() {
                let hp = ar.put(&c.hay[..l], place);
                let mut scratch = PpStats::default();
                if let Some(v) = check_pp(ctx, mode, imp, &*f, &c.needle, hp, place, if counting { &mut s.stats } else { &mut scratch }) {
                    s.failed = Some(v);
                    return Err(TestCaseError::fail("violation"));
                }
            }
        }
        Ok(())
    });
    let mut s = st.into_inner();
    if let Err(e) = &res {
        if let Some(v) = s.failed.take() {
            s.frag.violation(v);
        } else {
            s.frag.notes.push(format!("proptest aborted without a recorded violation: {}", e.to_string().chars().take(500).collect::<String>()));
        }
    }
    s.frag.extra.insert("packed_pair_calls".into(), json!(s.stats.calls));
    s.frag.extra.insert("below_minimum_cases".into(), json!(s.stats.panics_expected));
    s.frag
}

pub fn replay(ctx: &Ctx, v: &Value) -> Option<Value> {
    // op looks like "find[3,1]" / "find_prefilter[0,2]" / "checked-load[..]"
    let needle = unhex(v["needle"].as_str().unwrap_or(""));
    let hay = unhex(v["haystack"].as_str().unwrap_or(""));
    let op = v["op"].as_str().unwrap_or("");
    let lb = op.find('[')?;
    let inner = &op[lb + 1..op.len() - 1];
    let mut it = inner.split(',');
    let i1: u8 = it.next()?.trim().parse().ok()?;
    let i2: u8 = it.next()?.trim().parse().ok()?;
    let pair = Pair::with_indices(&needle, i1, i2)?;
    let place = crate::bytecheck::place_from_json(&v["place"]);
    let name = v["impl"].as_str().unwrap_or("");
    let mut arena = Arena::new(4 + hay.len() / 4096 + 2);
    let hp = arena.put(&hay, place);
    let mut st = PpStats::default();
    for &imp in subs::PP_IMPLS.iter() {
        if subs::sub_name(imp) != name {
            continue;
        }
        if let Ok(Some(f)) = subs::make_pp(imp, &needle, Some(pair)) {
            return check_pp(ctx, mode_for(&ctx.prop), imp, &*f, &needle, hp, place, &mut st);
        }
    }
    None
}
