//! Byte-search checks: C01 (find), C02 (rfind), C07 (count), and the
//! memory-safety / no-panic passes of C05 and C14 over the same inputs.

use crate::arena::{Arena, Place};
use crate::ctx::Ctx;
use crate::journal;
use crate::report::{hex, show, unhex, Frag};
use mvcore::bytes::{self, ByteSearcher};
use mvcore::oracle;
use proptest::prelude::*;
use serde_json::{json, Value};
use std::cell::RefCell;
use std::panic::{catch_unwind, AssertUnwindSafe};

pub const OP_FIND: u32 = 1;
pub const OP_RFIND: u32 = 2;
pub const OP_COUNT: u32 = 4;
pub const OP_FIND_RAW: u32 = 8;
pub const OP_RFIND_RAW: u32 = 16;
pub const OP_COUNT_RAW: u32 = 32;
pub const OP_RAW_EMPTY: u32 = 64;
pub const OP_RAW_INV: u32 = 128;
pub const OPS_ALL: u32 = 255;

pub fn op_name(op: u32) -> &'static str {
    match op {
        OP_FIND => "find",
        OP_RFIND => "rfind",
        OP_COUNT => "count",
        OP_FIND_RAW => "find_raw",
        OP_RFIND_RAW => "rfind_raw",
        OP_COUNT_RAW => "count_raw",
        OP_RAW_EMPTY => "raw(start==end)",
        OP_RAW_INV => "raw(start>end)",
        _ => "?",
    }
}

pub fn op_from_name(s: &str) -> u32 {
    for i in 0..8 {
        if op_name(1 << i) == s {
            return 1 << i;
        }
    }
    0
}

/// What a run judges.
#[derive(Clone, Copy)]
pub struct Mode {
    pub ops: u32,
    pub judge_values: bool,
    pub judge_region: bool,
    pub judge_panics: bool,
}

pub fn mode_for(prop: &str) -> Mode {
    match prop {
        "C01" => Mode {
            ops: OP_FIND | OP_FIND_RAW | OP_RAW_EMPTY | OP_RAW_INV,
            judge_values: true,
            judge_region: false,
            judge_panics: true,
        },
        "C02" => Mode {
            ops: OP_RFIND | OP_RFIND_RAW | OP_RAW_EMPTY | OP_RAW_INV,
            judge_values: true,
            judge_region: false,
            judge_panics: true,
        },
        "C07" => Mode {
            ops: OP_COUNT | OP_COUNT_RAW,
            judge_values: true,
            judge_region: false,
            judge_panics: true,
        },
        // C05 judges memory accesses only (checked loads here; guard-page faults and sanitizers elsewhere)
        "C05" => Mode { ops: OPS_ALL, judge_values: false, judge_region: true, judge_panics: false },
        // C14 judges panics only: a wrong value is not a panic
        "C14" => Mode { ops: OPS_ALL, judge_values: false, judge_region: false, judge_panics: true },
        // C09 and anything else: all operations, values and panics judged
        _ => Mode { ops: OPS_ALL, judge_values: true, judge_region: false, judge_panics: true },
    }
}

#[derive(Clone, Copy, Debug)]
pub struct Expect {
    pub pos: Option<usize>,
    pub rpos: Option<usize>,
    pub count: usize,
}

pub fn expect_naive(needles: &[u8], hay: &[u8]) -> Expect {
    Expect {
        pos: oracle::naive_pos(needles, hay),
        rpos: oracle::naive_rpos(needles, hay),
        count: oracle::naive_count(needles, hay),
    }
}

fn fmt_opt(o: Option<usize>) -> String {
    match o {
        None => "None".into(),
        Some(i) => format!("Some({})", i),
    }
}

/// Run the selected operations of one searcher on one placed haystack.
/// Returns the first disagreement as (op, expected, observed).
#[inline]
pub fn run_ops(
    s: &dyn ByteSearcher,
    imp: u8,
    arity: usize,
    hay: &[u8],
    ops: u32,
    e: &Expect,
    judge: bool,
) -> Option<(u32, String, String)> {
    let len = hay.len();
    if ops & OP_FIND != 0 {
        let r = s.find(hay);
        if judge && (r != e.pos || r.map_or(false, |i| i >= len)) {
            return Some((OP_FIND, fmt_opt(e.pos), fmt_opt(r)));
        }
    }
    if ops & OP_RFIND != 0 {
        let r = s.rfind(hay);
        if judge && r != e.rpos {
            return Some((OP_RFIND, fmt_opt(e.rpos), fmt_opt(r)));
        }
    }
    if ops & OP_COUNT != 0 && arity == 1 {
        if let Some(c) = s.count(hay) {
            if judge && c != e.count {
                return Some((OP_COUNT, e.count.to_string(), c.to_string()));
            }
        }
    }
    if bytes::has_raw(imp) {
        let st = hay.as_ptr();
        let en = unsafe { st.add(len) };
        unsafe {
            if ops & OP_FIND_RAW != 0 {
                match s.find_raw(st, en) {
                    Ok(r) => {
                        if judge && r != e.pos {
                            return Some((OP_FIND_RAW, fmt_opt(e.pos), fmt_opt(r)));
                        }
                    }
                    Err(()) => {
                        if judge {
                            return Some((
                                OP_FIND_RAW,
                                fmt_opt(e.pos),
                                "pointer outside [start,end)".into(),
                            ));
                        }
                    }
                }
            }
            if ops & OP_RFIND_RAW != 0 {
                match s.rfind_raw(st, en) {
                    Ok(r) => {
                        if judge && r != e.rpos {
                            return Some((OP_RFIND_RAW, fmt_opt(e.rpos), fmt_opt(r)));
                        }
                    }
                    Err(()) => {
                        if judge {
                            return Some((
                                OP_RFIND_RAW,
                                fmt_opt(e.rpos),
                                "pointer outside [start,end)".into(),
                            ));
                        }
                    }
                }
            }
            if ops & OP_COUNT_RAW != 0 && arity == 1 {
                if let Some(c) = s.count_raw(st, en) {
                    if judge && c != e.count {
                        return Some((OP_COUNT_RAW, e.count.to_string(), c.to_string()));
                    }
                }
            }
            if ops & OP_RAW_EMPTY != 0 {
                // start == end, at both ends and in the middle
                for p in [st, en, st.add(len / 2)] {
                    let a = if ops & (OP_RFIND | OP_RFIND_RAW) != 0 && ops & OP_FIND_RAW == 0 {
                        s.rfind_raw(p, p)
                    } else {
                        s.find_raw(p, p)
                    };
                    if judge && a != Ok(None) {
                        return Some((OP_RAW_EMPTY, "None".into(), format!("{:?}", a)));
                    }
                    if ops & OP_FIND_RAW != 0 && ops & OP_RFIND_RAW != 0 {
                        let b = s.rfind_raw(p, p);
                        if judge && b != Ok(None) {
                            return Some((OP_RAW_EMPTY, "None".into(), format!("rfind_raw: {:?}", b)));
                        }
                    }
                    if ops & OP_COUNT_RAW != 0 && arity == 1 {
                        if let Some(c) = s.count_raw(p, p) {
                            if judge && c != 0 {
                                return Some((OP_RAW_EMPTY, "0".into(), c.to_string()));
                            }
                        }
                    }
                }
            }
            if ops & OP_RAW_INV != 0 && len > 0 {
                // start > end, both inside the same buffer (documented: None)
                let a = if ops & (OP_RFIND | OP_RFIND_RAW) != 0 && ops & OP_FIND_RAW == 0 {
                    s.rfind_raw(en, st)
                } else {
                    s.find_raw(en, st)
                };
                if judge && a != Ok(None) {
                    return Some((OP_RAW_INV, "None".into(), format!("{:?}", a)));
                }
                if ops & OP_FIND_RAW != 0 && ops & OP_RFIND_RAW != 0 {
                    // both directions selected (C05 / C14 / C09): the reverse routine as well, and with
                    // start one past end in the middle of the buffer
                    let b = s.rfind_raw(en, st);
                    if judge && b != Ok(None) {
                        return Some((OP_RAW_INV, "None".into(), format!("rfind_raw: {:?}", b)));
                    }
                    let mid = st.add(len / 2);
                    let c = s.rfind_raw(mid.add(1).min(en), mid);
                    let d = s.find_raw(mid.add(1).min(en), mid);
                    if judge && (c != Ok(None) || d != Ok(None)) {
                        return Some((OP_RAW_INV, "None".into(), format!("start = end + 1 in the middle: find_raw {:?}, rfind_raw {:?}", d, c)));
                    }
                }
                if ops & OP_COUNT_RAW != 0 && arity == 1 {
                    if let Some(c) = s.count_raw(en, st) {
                        if judge && c != 0 {
                            return Some((OP_RAW_INV, "0".into(), c.to_string()));
                        }
                    }
                }
            }
        }
    }
    None
}

pub fn place_json(p: Place) -> Value {
    match p {
        Place::Mid(a) => json!({"mid": a}),
        Place::MidEnd(a) => json!({"midend": a}),
        Place::End => json!("end"),
        Place::Start => json!("start"),
    }
}

pub fn place_from_json(v: &Value) -> Place {
    if let Some(a) = v.get("mid").and_then(|x| x.as_u64()) {
        Place::Mid(a as usize)
    } else if let Some(a) = v.get("midend").and_then(|x| x.as_u64()) {
        Place::MidEnd(a as usize)
    } else if v.as_str() == Some("end") {
        Place::End
    } else {
        Place::Start
    }
}

pub fn violation_json(
    ctx: &Ctx,
    imp: u8,
    op: &str,
    needles: &[u8],
    hay: &[u8],
    place: Place,
    expected: &str,
    observed: &str,
    what: &str,
) -> Value {
    let config = ctx.config();
    let imp_name = bytes::IMPL_NAMES[imp as usize];
    json!({
        "property": ctx.prop,
        "kind": "byte",
        "config": config,
        "level": ctx.level,
        "impl": imp_name,
        "op": op,
        "needles": hex(needles),
        "haystack": hex(hay),
        "haystack_len": hay.len(),
        "haystack_shown": show(hay),
        "place": place_json(place),
        "expected": expected,
        "observed": observed,
        "what": what,
        "signature": format!("{}|{}|{}|{}|{}|{}", ctx.prop, config, imp_name, op, hex(needles), hex(hay)),
    })
}

/// Near-miss filler for a needle set: differs from every needle, and is a
/// one-bit / plus-minus-one neighbour of one of them.
pub fn filler(needles: &[u8], variant: usize) -> u8 {
    let n = needles[variant % needles.len()];
    let cands = [
        n ^ 0x01,
        n ^ 0x80,
        n.wrapping_add(1),
        n.wrapping_sub(1),
        n ^ 0xFF,
        n ^ 0x10,
        n ^ 0x02,
        n.wrapping_add(0x11),
    ];
    for k in 0..cands.len() {
        let c = cands[(variant / needles.len() + k) % cands.len()];
        if !oracle::is_match(needles, c) {
            return c;
        }
    }
    // needles cover at most 3 values
    let mut c = 0u8;
    while oracle::is_match(needles, c) {
        c += 1;
    }
    c
}

pub const NEEDLE_SETS_1: [[u8; 1]; 4] = [[b'a'], [0x00], [0x80], [0xFF]];
pub const NEEDLE_SETS_2: [[u8; 2]; 4] = [[b'a', b'z'], [0x00, 0xFF], [0x80, 0x80], [0x7F, 0x01]];
pub const NEEDLE_SETS_3: [[u8; 3]; 4] =
    [[b'a', b'z', b'#'], [0x00, 0x80, 0xFF], [b'x', b'y', b'x'], [0xFE, 0xFE, 0xFE]];

fn needle_sets(thorough: bool) -> Vec<Vec<u8>> {
    let k = if thorough { 4 } else { 2 };
    let mut v = Vec::new();
    for s in NEEDLE_SETS_1.iter().take(k) {
        v.push(s.to_vec());
    }
    for s in NEEDLE_SETS_2.iter().take(k) {
        v.push(s.to_vec());
    }
    for s in NEEDLE_SETS_3.iter().take(k) {
        v.push(s.to_vec());
    }
    v
}

/// The implementations a level exercises. The explicit SSE2/AVX2/small
/// types do not depend on the forced level, so they are only run at level 0.
fn impls_for_level(level: u8) -> Vec<u8> {
    if level == 0 {
        (0..bytes::N_IMPLS as u8).collect()
    } else {
        vec![bytes::TOP]
    }
}

struct Counters {
    evals: u64,
    nontrivial: u64,
    short: u64,
    mid: u64,
    long: u64,
    m_none: u64,
    m_head: u64,
    m_body: u64,
    m_tail: u64,
    multi_needle_hit: u64,
}

impl Counters {
    fn new() -> Counters {
        Counters {
            evals: 0,
            nontrivial: 0,
            short: 0,
            mid: 0,
            long: 0,
            m_none: 0,
            m_head: 0,
            m_body: 0,
            m_tail: 0,
            multi_needle_hit: 0,
        }
    }
    #[inline]
    fn classify(&mut self, vb: usize, len: usize, first: Option<usize>, last: Option<usize>, reverse: bool, on_other_needle: bool) {
        self.evals += 1;
        if len < vb {
            self.short += 1;
        } else if len < 4 * vb {
            self.mid += 1;
        } else {
            self.long += 1;
        }
        let m = if reverse { last } else { first };
        let mut nt = false;
        match m {
            None => self.m_none += 1,
            Some(p) => {
                let from_edge = if reverse { len - 1 - p } else { p };
                let to_other = if reverse { p } else { len - 1 - p };
                if from_edge < vb {
                    self.m_head += 1;
                } else if to_other < vb {
                    self.m_tail += 1;
                    nt = true;
                } else {
                    self.m_body += 1;
                    nt = true;
                }
                if on_other_needle {
                    self.multi_needle_hit += 1;
                    nt = true;
                }
            }
        }
        if len > 0 && len < vb {
            nt = true;
        }
        if nt {
            self.nontrivial += 1;
        }
    }
    fn flush(&self, frag: &mut Frag) {
        frag.evaluations += self.evals;
        frag.nontrivial_enum += self.nontrivial;
        frag.class_n("len<vector", self.short);
        frag.class_n("vector<=len<4*vector", self.mid);
        frag.class_n("len>=4*vector", self.long);
        frag.class_n("no match", self.m_none);
        frag.class_n("match within first vector of the scan", self.m_head);
        frag.class_n("match in loop body", self.m_body);
        frag.class_n("match within last vector of the scan", self.m_tail);
        frag.class_n("match on 2nd/3rd needle", self.multi_needle_hit);
    }
}

pub const REQUIRED_BYTE_CLASSES: [&str; 7] = [
    "len<vector",
    "vector<=len<4*vector",
    "len>=4*vector",
    "no match",
    "match within first vector of the scan",
    "match in loop body",
    "match within last vector of the scan",
];

fn region_on(hay: &[u8]) {
    #[cfg(memchr_verif)]
    memchr::verif::region_set(hay.as_ptr() as usize, hay.as_ptr() as usize + hay.len());
    let _ = hay;
}

fn region_off() {
    #[cfg(memchr_verif)]
    memchr::verif::region_clear();
}

fn region_take() -> Option<(u64, usize, usize, u8)> {
    #[cfg(memchr_verif)]
    {
        let r = memchr::verif::region_take_violation();
        if r.0 > 0 {
            return Some(r);
        }
    }
    None
}

pub fn region_loads() -> u64 {
    #[cfg(memchr_verif)]
    {
        return memchr::verif::region_loads();
    }
    #[allow(unreachable_code)]
    0
}

fn region_violation_json(
    ctx: &Ctx,
    imp: u8,
    needles: &[u8],
    hay: &[u8],
    place: Place,
    r: (u64, usize, usize, u8),
) -> Value {
    let start = hay.as_ptr() as usize;
    let rel = r.1 as i64 - start as i64;
    let what = if r.3 == 2 {
        format!(
            "aligned vector load of {} bytes at haystack offset {} is not aligned (address % {} = {})",
            r.2, rel, r.2, r.1 % r.2.max(1)
        )
    } else {
        format!(
            "vector load of {} bytes at haystack offset {} reaches outside the {}-byte haystack ({} such loads)",
            r.2, rel, hay.len(), r.0
        )
    };
    violation_json(ctx, imp, "checked-load", needles, hay, place, "all loads inside the haystack and aligned loads aligned", &what, &what)
}

/// Layouts of the exhaustive product.
#[derive(Clone, Copy, PartialEq, Eq, Debug)]
enum Layout {
    Single,
    FirstDense,
    LastDense,
}

/// The exhaustive (alignment x length x match position) product.
pub fn exhaustive(ctx: &Ctx, mode: Mode, places: &[&str]) -> Frag {
    let mut frag = ctx.frag("bytes-exhaustive");
    frag.require(&REQUIRED_BYTE_CLASSES);
    let lmax_native = if ctx.thorough { 520 } else { 288 };
    let lmax = if mvcore::cfgs::cfg_emu() { if ctx.thorough { 288 } else { 160 } } else { lmax_native };
    let amod = if ctx.thorough { 128 } else { 64 };
    let mut arena = Arena::new(4 + (lmax + 4096) / 4096 + 2);
    let sets = needle_sets(ctx.thorough);
    let impls = impls_for_level(ctx.level);
    let mut cnt = Counters::new();
    let reverse_focus = ctx.prop == "C02";
    let mut group = 0usize;
    let mut loads0 = region_loads();
    'outer: for needles in sets.iter() {
        let arity = needles.len();
        for &imp in impls.iter() {
            let s = match bytes::make(imp, needles) {
                Some(s) => s,
                None => continue,
            };
            let vb = bytes::vector_bytes(imp, ctx.level);
            // small vectors: shorter bound is already several loop iterations
            let lmax_i = if imp == bytes::SMALL4 || imp == bytes::SMALL8 { lmax.min(96) } else { lmax };
            for pl in places.iter() {
                let aligns: Vec<usize> = match *pl {
                    "mid" | "midend" => (0..amod).collect(),
                    _ => vec![0],
                };
                for &a in aligns.iter() {
                    group += 1;
                    if !ctx.mine(group) {
                        continue;
                    }
                    for len in 0..=lmax_i {
                        let place = match *pl {
                            "mid" => Place::Mid(a),
                            "midend" => Place::MidEnd(a),
                            "end" => Place::End,
                            _ => Place::Start,
                        };
                        let fill = filler(needles, a + len);
                        journal::set_ctx(&format!(
                            "{{\"stage\":\"bytes-exhaustive\",\"impl\":\"{}\",\"needles\":\"{}\",\"len\":{},\"place\":{},\"filler\":{}}}",
                            bytes::IMPL_NAMES[imp as usize], hex(needles), len, place_json(place), fill
                        ));
                        let r = catch_unwind(AssertUnwindSafe(|| -> Option<Value> {
                            let w = arena.window(len, place);
                            for b in w.iter_mut() {
                                *b = fill;
                            }
                            if mode.judge_region {
                                region_on(w);
                            }
                            // no match at all
                            {
                                let e = Expect { pos: None, rpos: None, count: 0 };
                                cnt.classify(vb, len, None, None, reverse_focus, false);
                                if let Some((op, ex, ob)) = run_ops(&*s, imp, arity, w, mode.ops, &e, mode.judge_values) {
                                    return Some(violation_json(ctx, imp, op_name(op), needles, w, place, &ex, &ob, "wrong answer"));
                                }
                            }
                            for layout in [Layout::Single, Layout::FirstDense, Layout::LastDense] {
                                for p in 0..len {
                                    journal::set_pos(p as u64, layout as u64);
                                    let nb = needles[(p + a) % arity];
                                    let e = match layout {
                                        Layout::Single => {
                                            w[p] = nb;
                                            Expect { pos: Some(p), rpos: Some(p), count: 1 }
                                        }
                                        Layout::FirstDense => {
                                            for (k, b) in w[p..].iter_mut().enumerate() {
                                                *b = needles[(p + a + k) % arity];
                                            }
                                            Expect { pos: Some(p), rpos: Some(len - 1), count: len - p }
                                        }
                                        Layout::LastDense => {
                                            for (k, b) in w[..=p].iter_mut().enumerate() {
                                                *b = needles[(a + k) % arity];
                                            }
                                            Expect { pos: Some(0), rpos: Some(p), count: p + 1 }
                                        }
                                    };
                                    if p % 61 == 0 {
                                        // validate the analytic expectation against the naive oracle
                                        let n = expect_naive(needles, w);
                                        assert!(n.pos == e.pos && n.rpos == e.rpos && n.count == e.count, "enumerator self-check failed");
                                    }
                                    cnt.classify(vb, len, e.pos, e.rpos, reverse_focus, nb != needles[0]);
                                    let bad = run_ops(&*s, imp, arity, w, mode.ops & !(OP_RAW_EMPTY | OP_RAW_INV), &e, mode.judge_values);
                                    if let Some((op, ex, ob)) = bad {
                                        return Some(violation_json(ctx, imp, op_name(op), needles, w, place, &ex, &ob, "wrong answer"));
                                    }
                                    if mode.judge_region {
                                        if let Some(rv) = region_take() {
                                            return Some(region_violation_json(ctx, imp, needles, w, place, rv));
                                        }
                                    }
                                    // restore
                                    match layout {
                                        Layout::Single => w[p] = fill,
                                        Layout::FirstDense => {
                                            for b in w[p..].iter_mut() {
                                                *b = fill;
                                            }
                                        }
                                        Layout::LastDense => {
                                            for b in w[..=p].iter_mut() {
                                                *b = fill;
                                            }
                                        }
                                    }
                                }
                            }
                            if mode.judge_region {
                                if let Some(rv) = region_take() {
                                    return Some(region_violation_json(ctx, imp, needles, w, place, rv));
                                }
                                region_off();
                            }
                            None
                        }));
                        match r {
                            Ok(None) => {}
                            Ok(Some(v)) => {
                                frag.violation(v);
                                break 'outer;
                            }
                            Err(_) if !mode.judge_panics => {
                                region_off();
                            }
                            Err(p) => {
                                region_off();
                                let msg = panic_msg(&p);
                                let w = arena.window(len, place);
                                let v = violation_json(ctx, imp, "panic", needles, w, place, "no panic", &msg, &format!("panic: {} (journal {})", msg, journal::ctx()));
                                frag.violation(v);
                                break 'outer;
                            }
                        }
                    }
                }
            }
            if frag.want_sample() {
                frag.sample(json!({"stage":"bytes-exhaustive","impl":bytes::IMPL_NAMES[imp as usize],"needles":hex(needles),
                    "enumerated":"every placement/alignment of this shard x every length 0..=L x every match position x {single, first+all later, last+all earlier} + no match",
                    "L": lmax_i}));
            }
        }
    }
    region_off();
    cnt.flush(&mut frag);
    frag.extra.insert("checked_loads".into(), json!(region_loads() - loads0));
    loads0 = 0;
    let _ = loads0;
    frag.subspaces.push(json!({
        "what": "alignment x length x match-position product",
        "alignment_modulus": amod, "max_len": lmax, "places": places,
        "layouts": ["none","single at p","first at p + all later positions match","last at p + all earlier positions match"],
        "needle_sets": sets.iter().map(|s| hex(s)).collect::<Vec<_>>(),
        "exhaustive_within_bounds": true,
    }));
    frag
}

pub fn panic_msg(p: &Box<dyn std::any::Any + Send>) -> String {
    if let Some(s) = p.downcast_ref::<&str>() {
        s.to_string()
    } else if let Some(s) = p.downcast_ref::<String>() {
        s.clone()
    } else {
        "<non-string panic payload>".to_string()
    }
}

/// All 2^len bitmaps of matching positions for short haystacks, and all
/// placements of up to three matches for medium ones.
pub fn bitmaps(ctx: &Ctx, mode: Mode) -> Frag {
    let mut frag = ctx.frag("bytes-bitmaps");
    let mut arena = Arena::new(8);
    let impls = impls_for_level(ctx.level);
    let max_bits_small = if ctx.thorough { 22 } else { 18 };
    let max_bits_other = if ctx.thorough { 18 } else { 14 };
    let max_len3 = if ctx.thorough { 64 } else { 40 };
    let sets: Vec<Vec<u8>> = vec![vec![b'a'], vec![0x80, 0x00], vec![b'x', 0xFF, b'x']];
    let mut group = 0usize;
    let mut evals = 0u64;
    let mut nontrivial = 0u64;
    'outer: for needles in sets.iter() {
        let arity = needles.len();
        for &imp in impls.iter() {
            let s = match bytes::make(imp, needles) {
                Some(s) => s,
                None => continue,
            };
            let small = imp == bytes::SMALL4 || imp == bytes::SMALL8;
            let vb = bytes::vector_bytes(imp, ctx.level);
            let max_bits = if small { max_bits_small } else { max_bits_other };
            let aligns: Vec<usize> = if small { (0..vb).collect() } else { vec![0, 1, 7, 15, 31, 33] };
            for &a in aligns.iter() {
                for len in 0..=max_bits {
                    group += 1;
                    if !ctx.mine(group) {
                        continue;
                    }
                    let place = Place::Mid(a);
                    let fill = filler(needles, a + len);
                    journal::set_ctx(&format!(
                        "{{\"stage\":\"bytes-bitmaps\",\"impl\":\"{}\",\"needles\":\"{}\",\"len\":{},\"place\":{},\"filler\":{}}}",
                        bytes::IMPL_NAMES[imp as usize], hex(needles), len, place_json(place), fill
                    ));
                    let r = catch_unwind(AssertUnwindSafe(|| -> Option<Value> {
                        let w = arena.window(len, place);
                        if mode.judge_region {
                            region_on(w);
                        }
                        for bits in 0u64..(1u64 << len) {
                            journal::set_pos(bits, 0);
                            for i in 0..len {
                                w[i] = if bits >> i & 1 == 1 { needles[(i + a) % arity] } else { fill };
                            }
                            let e = if bits == 0 {
                                Expect { pos: None, rpos: None, count: 0 }
                            } else {
                                Expect {
                                    pos: Some(bits.trailing_zeros() as usize),
                                    rpos: Some(63 - bits.leading_zeros() as usize),
                                    count: bits.count_ones() as usize,
                                }
                            };
                            evals += 1;
                            if bits.count_ones() >= 2 || (bits != 0 && len > vb) {
                                nontrivial += 1;
                            }
                            if let Some((op, ex, ob)) = run_ops(&*s, imp, arity, w, mode.ops & !(OP_RAW_EMPTY | OP_RAW_INV), &e, mode.judge_values) {
                                return Some(violation_json(ctx, imp, op_name(op), needles, w, place, &ex, &ob, "wrong answer"));
                            }
                        }
                        if mode.judge_region {
                            if let Some(rv) = region_take() {
                                return Some(region_violation_json(ctx, imp, needles, w, place, rv));
                            }
                            region_off();
                        }
                        None
                    }));
                    match r {
                        Ok(None) => {}
                        Ok(Some(v)) => {
                            frag.violation(v);
                            break 'outer;
                        }
                        Err(_) if !mode.judge_panics => {
                            region_off();
                        }
                        Err(p) => {
                            region_off();
                            let msg = panic_msg(&p);
                            let w = arena.window(len, place);
                            frag.violation(violation_json(ctx, imp, "panic", needles, w, place, "no panic", &msg, &format!("panic: {} (journal {})", msg, journal::ctx())));
                            break 'outer;
                        }
                    }
                }
                // up to three matches anywhere, medium lengths (small vectors only:
                // several unrolled iterations fit into the bound)
                if small {
                    for len in (max_bits + 1)..=max_len3 {
                        group += 1;
                        if !ctx.mine(group) {
                            continue;
                        }
                        let place = Place::Mid(a);
                        let fill = filler(needles, a + len);
                        journal::set_ctx(&format!(
                            "{{\"stage\":\"bytes-3matches\",\"impl\":\"{}\",\"needles\":\"{}\",\"len\":{},\"place\":{},\"filler\":{}}}",
                            bytes::IMPL_NAMES[imp as usize], hex(needles), len, place_json(place), fill
                        ));
                        let r = catch_unwind(AssertUnwindSafe(|| -> Option<Value> {
                            let w = arena.window(len, place);
                            for b in w.iter_mut() {
                                *b = fill;
                            }
                            if mode.judge_region {
                                region_on(w);
                            }
                            for i in 0..len {
                                for j in i..len {
                                    for k in j..len {
                                        w[i] = needles[(i + a) % arity];
                                        w[j] = needles[(j + a) % arity];
                                        w[k] = needles[(k + a) % arity];
                                        let c = 1 + (j != i) as usize + (k != j) as usize;
                                        let e = Expect { pos: Some(i), rpos: Some(k), count: c };
                                        evals += 1;
                                        if c >= 2 {
                                            nontrivial += 1;
                                        }
                                        let bad = run_ops(&*s, imp, arity, w, mode.ops & !(OP_RAW_EMPTY | OP_RAW_INV), &e, mode.judge_values);
                                        if let Some((op, ex, ob)) = bad {
                                            return Some(violation_json(ctx, imp, op_name(op), needles, w, place, &ex, &ob, "wrong answer"));
                                        }
                                        w[i] = fill;
                                        w[j] = fill;
                                        w[k] = fill;
                                    }
                                }
                            }
                            if mode.judge_region {
                                if let Some(rv) = region_take() {
                                    return Some(region_violation_json(ctx, imp, needles, w, place, rv));
                                }
                                region_off();
                            }
                            None
                        }));
                        match r {
                            Ok(None) => {}
                            Ok(Some(v)) => {
                                frag.violation(v);
                                break 'outer;
                            }
                            Err(_) if !mode.judge_panics => {
                                region_off();
                            }
                            Err(p) => {
                                region_off();
                                let msg = panic_msg(&p);
                                let w = arena.window(len, place);
                                frag.violation(violation_json(ctx, imp, "panic", needles, w, place, "no panic", &msg, &format!("panic: {}", msg)));
                                break 'outer;
                            }
                        }
                    }
                }
            }
            if frag.want_sample() {
                frag.sample(json!({"stage":"bytes-bitmaps","impl":bytes::IMPL_NAMES[imp as usize],"needles":hex(needles),
                    "enumerated": format!("all 2^len match bitmaps for len<={} at alignments {:?}{}", max_bits, aligns,
                        if small { format!(" + every placement of <=3 matches for len<={}", max_len3) } else { String::new() })}));
            }
        }
    }
    region_off();
    frag.evaluations += evals;
    frag.nontrivial_enum += nontrivial;
    frag.class_n("bitmap cases", evals);
    frag.subspaces.push(json!({"what":"all match bitmaps", "max_len_small_vectors": max_bits_small, "max_len_other": max_bits_other,
        "three_matches_max_len": max_len3, "exhaustive_within_bounds": true}));
    frag
}

// ---------------------------------------------------------------------------
// proptest-generated byte cases

#[derive(Clone, Debug)]
pub struct ByteCase {
    pub needles: Vec<u8>,
    pub hay: Vec<u8>,
    pub place: Place,
}

fn needle_value() -> impl Strategy<Value = u8> {
    prop_oneof![
        3 => prop::sample::select(vec![0x00u8, 0x01, 0x7F, 0x80, 0xFF, b'a', b'\n', b' ']),
        2 => any::<u8>(),
    ]
}

fn needle_set() -> impl Strategy<Value = Vec<u8>> {
    prop_oneof![
        3 => needle_value().prop_map(|a| vec![a]),
        3 => (needle_value(), needle_value()).prop_map(|(a, b)| vec![a, b]),
        3 => (needle_value(), needle_value(), needle_value()).prop_map(|(a, b, c)| vec![a, b, c]),
        1 => needle_value().prop_map(|a| vec![a, a]),
        1 => (needle_value(), needle_value()).prop_map(|(a, b)| vec![a, b, b]),
        1 => needle_value().prop_map(|a| vec![a, a, a]),
    ]
}

fn hay_len(max: usize) -> impl Strategy<Value = usize> {
    prop_oneof![
        2 => 0usize..=40,
        3 => 0usize..=160,
        3 => 0usize..=600,
        2 => 0usize..=2048usize.min(max),
        1 => 0usize..=max,
    ]
}

fn placement() -> impl Strategy<Value = Place> {
    prop_oneof![
        4 => (0usize..128).prop_map(Place::Mid),
        3 => (0usize..128).prop_map(Place::MidEnd),
        2 => Just(Place::End),
        2 => Just(Place::Start),
    ]
}

/// (layout selector, two positions as fractions, density selector, rotate)
pub fn byte_case(max_len: usize) -> impl Strategy<Value = ByteCase> {
    (
        needle_set(),
        hay_len(max_len),
        placement(),
        0u8..10,
        (0u32..65536, 0u32..65536),
        any::<u64>(),
        0usize..16,
    )
        .prop_map(|(needles, len, place, layout, (fa, fb), bits, var)| {
            let fill = filler(&needles, var);
            let mut hay = vec![fill; len];
            let ar = needles.len();
            let at = |f: u32| -> usize { ((f as u64 * len as u64) >> 16) as usize };
            if len > 0 {
                match layout {
                    0 => {}
                    1 => {
                        let p = at(fa);
                        hay[p] = needles[var % ar];
                    }
                    2 => {
                        let (p, q) = (at(fa), at(fb));
                        hay[p] = needles[var % ar];
                        hay[q] = needles[(var + 1) % ar];
                    }
                    3 => {
                        // every k-th
                        let k = 1 + at(fa) % 70;
                        let mut i = at(fb) % k;
                        while i < len {
                            hay[i] = needles[(i + var) % ar];
                            i += k;
                        }
                    }
                    4 => {
                        // Bernoulli with density 1/2, 1/8 or 1/64, from a xorshift of `bits`
                        let shift = [1u32, 3, 6][var % 3];
                        let mut x = bits | 1;
                        for i in 0..len {
                            x ^= x << 13;
                            x ^= x >> 7;
                            x ^= x << 17;
                            if x & ((1 << shift) - 1) == 0 {
                                hay[i] = needles[(x >> 32) as usize % ar];
                            }
                        }
                    }
                    5 => {
                        for i in 0..len {
                            hay[i] = needles[(i + var) % ar];
                        }
                    }
                    6 => {
                        // all but one
                        for i in 0..len {
                            hay[i] = needles[(i + var) % ar];
                        }
                        hay[at(fa)] = fill;
                    }
                    7 => {
                        // a match only in the last / first few bytes
                        let p = if var % 2 == 0 { len - 1 - at(fa) % len.min(40) } else { at(fa) % len.min(40) };
                        hay[p] = needles[var % ar];
                    }
                    8 => {
                        // a clean prefix, then a dense run of matches (every lane of a vector / block matches somewhere)
                        let p = at(fa);
                        let l = 1 + at(fb) % 300;
                        for i in p..(p + l).min(len) {
                            hay[i] = needles[(i + var) % ar];
                        }
                    }
                    _ => {
                        // a span in which consecutive 32-byte stretches carry matches in different lane phases
                        let p = at(fa);
                        let l = 64 + at(fb) % 256;
                        let k = [2usize, 4, 8][var % 3];
                        for i in p..(p + l).min(len) {
                            if i % k == (i / 32) % k {
                                hay[i] = needles[(i + var) % ar];
                            }
                        }
                    }
                }
            }
            ByteCase { needles, hay, place }
        })
}

struct PbtState {
    frag: Frag,
    failed: Option<Value>,
}

pub fn pbt(ctx: &Ctx, mode: Mode) -> Frag {
    let mut frag = ctx.frag("bytes-proptest");
    frag.require(&REQUIRED_BYTE_CLASSES);
    let max_len = if ctx.thorough { 65536 } else { 9000 };
    let cases = ctx.n(200_000, 5_000_000) as u32;
    let state = RefCell::new(PbtState { frag, failed: None });
    let arena = RefCell::new(Arena::new(4 + max_len / 4096 + 2));
    let impls = impls_for_level(ctx.level);
    let reverse_focus = ctx.prop == "C02";
    let mut runner = crate::ctx::runner(ctx.stream_seed("bytes-proptest"), cases);
    let res = runner.run(&byte_case(max_len), |c| {
        let mut st = state.borrow_mut();
        let counting = st.failed.is_none();
        let mut ar = arena.borrow_mut();
        let placed = ar.put(&c.hay, c.place);
        let e = expect_naive(&c.needles, placed);
        let arity = c.needles.len();
        if counting {
            let mut cnt = Counters::new();
            cnt.classify(32, placed.len(), e.pos, e.rpos, reverse_focus, e.pos.map_or(false, |p| placed[p] != c.needles[0]));
            let nt = cnt.nontrivial > 0;
            cnt.nontrivial = 0;
            cnt.flush(&mut st.frag);
            if nt {
                st.frag.nontrivial_hashes.insert(oracle::fnv(&[&c.needles, placed, &[place_code(c.place)]]));
            }
            if st.frag.want_sample() && nt {
                st.frag.sample(json!({"stage":"bytes-proptest","needles":hex(&c.needles),"haystack":show(placed),"len":placed.len(),
                    "place":place_json(c.place),"first":e.pos,"last":e.rpos,"count":e.count}));
            }
        }
        journal::set_ctx(&format!("{{\"stage\":\"bytes-proptest\",\"needles\":\"{}\",\"hay\":\"{}\",\"place\":{}}}", hex(&c.needles), hex(placed), place_json(c.place)));
        for &imp in impls.iter() {
            let s = match bytes::make(imp, &c.needles) {
                Some(s) => s,
                None => continue,
            };
            if mode.judge_region {
                region_on(placed);
            }
            let r = catch_unwind(AssertUnwindSafe(|| run_ops(&*s, imp, arity, placed, mode.ops, &e, mode.judge_values)));
            let mut bad: Option<Value> = None;
            match r {
                Ok(None) => {}
                Ok(Some((op, ex, ob))) => {
                    bad = Some(violation_json(ctx, imp, op_name(op), &c.needles, placed, c.place, &ex, &ob, "wrong answer"));
                }
                Err(p) => {
                    if mode.judge_panics {
                        let msg = panic_msg(&p);
                        bad = Some(violation_json(ctx, imp, "panic", &c.needles, placed, c.place, "no panic", &msg, &format!("panic: {}", msg)));
                    }
                }
            }
            if mode.judge_region {
                if let Some(rv) = region_take() {
                    bad = Some(region_violation_json(ctx, imp, &c.needles, placed, c.place, rv));
                }
                region_off();
            }
            if let Some(v) = bad {
                st.failed = Some(v);
                return Err(TestCaseError::fail("violation"));
            }
        }
        Ok(())
    });
    let mut st = state.into_inner();
    if res.is_err() {
        if let Some(v) = st.failed.take() {
            st.frag.violation(v);
        } else {
            st.frag.notes.push(format!("proptest aborted: {:?}", res.err().map(|e| e.to_string())));
        }
    }
    st.frag
}

/// Every needle VALUE: all 256 single needles, all 65536 ordered pairs, and triples (n1, n2, f(n1, n2)),
/// over haystacks that contain every byte value (a permutation of 0..=255, twice), so that a routine that
/// treats particular needle values specially (case folding, duplicate detection, sign tricks) is exercised
/// for each of them. Haystack lengths 512 and 200 (a prefix), three placements.
pub fn sweep(ctx: &Ctx, mode: Mode) -> Frag {
    let mut frag = ctx.frag("bytes-sweep");
    let impls = impls_for_level(ctx.level);
    let mut arena = Arena::new(8);
    let perm: Vec<u8> = (0..512usize).map(|i| ((i * 167 + 13 + (i / 256) * 91) % 256) as u8).collect();
    let emu = mvcore::cfgs::cfg_emu();
    let mut idx = 0usize;
    'outer: for (hi, hay_src) in [&perm[..], &perm[..200], &perm[37..37 + 130]].iter().enumerate() {
        for place in [Place::Mid(0), Place::Mid(1), Place::End] {
            for arity in 1..=3usize {
                idx += 1;
                if !ctx.mine(idx) {
                    continue;
                }
                if emu && (hi > 0 || !matches!(place, Place::Mid(1))) && arity > 1 {
                    continue; // the emulated vectors are slow: one haystack / placement for the pair sweeps
                }
                let placed = arena.put(hay_src, place);
                let total: usize = if arity == 1 { 256 } else { 65536 };
                for code in 0..total {
                    let n1 = (code & 0xFF) as u8;
                    let n2 = (code >> 8) as u8;
                    let n3 = n1 ^ n2.rotate_left(3) ^ 0x55;
                    let needles: Vec<u8> = match arity {
                        1 => vec![n1],
                        2 => vec![n1, n2],
                        _ => vec![n1, n2, n3],
                    };
                    let e = expect_naive(&needles, placed);
                    frag.evaluations += 1;
                    frag.nontrivial_enum += 1;
                    for &imp in impls.iter() {
                        if imp == bytes::SMALL4 || imp == bytes::SMALL8 {
                            continue;
                        }
                        let srch = match bytes::make(imp, &needles) {
                            Some(x) => x,
                            None => continue,
                        };
                        let r = catch_unwind(AssertUnwindSafe(|| run_ops(&*srch, imp, arity, placed, mode.ops & (OP_FIND | OP_RFIND | OP_COUNT), &e, mode.judge_values)));
                        let bad = match r {
                            Ok(None) => None,
                            Ok(Some((op, ex, ob))) => Some(violation_json(ctx, imp, op_name(op), &needles, placed, place, &ex, &ob, "wrong answer")),
                            Err(p) if mode.judge_panics => {
                                let msg = panic_msg(&p);
                                Some(violation_json(ctx, imp, "panic", &needles, placed, place, "no panic", &msg, &format!("panic: {}", msg)))
                            }
                            Err(_) => None,
                        };
                        if let Some(v) = bad {
                            frag.violation(v);
                            break 'outer;
                        }
                    }
                }
                frag.class(&format!("needle value sweep, arity {}", arity));
            }
        }
    }
    frag.subspaces.push(json!({"what": "every needle value", "single": 256, "ordered_pairs": 65536, "triples": "(n1, n2, n1 ^ rotl(n2,3) ^ 0x55) for all 65536 (n1, n2)",
        "haystacks": "a permutation of all 256 byte values twice (512 bytes), its 200-byte prefix, a 130-byte window", "placements": "aligned, aligned + 1, abutting the guard page"}));
    frag
}

fn place_code(p: Place) -> u8 {
    match p {
        Place::Mid(a) => (a % 64) as u8,
        Place::MidEnd(a) => 64 + (a % 64) as u8,
        Place::End => 200,
        Place::Start => 201,
    }
}

/// Re-execute one byte-search violation record.
pub fn replay(ctx: &Ctx, v: &Value) -> Option<Value> {
    let needles = unhex(v["needles"].as_str().unwrap_or(""));
    let hay = unhex(v["haystack"].as_str().unwrap_or(""));
    let place = place_from_json(&v["place"]);
    let imp_name = v["impl"].as_str().unwrap_or("");
    let imp = bytes::IMPL_NAMES.iter().position(|n| *n == imp_name)? as u8;
    let opn = v["op"].as_str().unwrap_or("");
    let mut arena = Arena::new(4 + hay.len() / 4096 + 2);
    let placed = arena.put(&hay, place);
    let s = bytes::make(imp, &needles)?;
    let e = expect_naive(&needles, placed);
    if opn == "checked-load" {
        region_on(placed);
        let _ = catch_unwind(AssertUnwindSafe(|| run_ops(&*s, imp, needles.len(), placed, OPS_ALL, &e, false)));
        let rv = region_take();
        region_off();
        return rv.map(|rv| region_violation_json(ctx, imp, &needles, placed, place, rv));
    }
    let ops = if opn == "panic" { OPS_ALL } else { op_from_name(opn) };
    let r = catch_unwind(AssertUnwindSafe(|| run_ops(&*s, imp, needles.len(), placed, ops, &e, true)));
    match r {
        Ok(None) => None,
        Ok(Some((op, ex, ob))) => Some(violation_json(ctx, imp, op_name(op), &needles, placed, place, &ex, &ob, "wrong answer")),
        Err(p) => {
            let msg = panic_msg(&p);
            Some(violation_json(ctx, imp, "panic", &needles, placed, place, "no panic", &msg, &format!("panic: {}", msg)))
        }
    }
}
