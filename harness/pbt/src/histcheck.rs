//! C10 (heuristics never change results) and C16 (a finder is a pure
//! function of its needle: reuse, clone, as_ref, into_owned).

use crate::arena::{Arena, Place};
use crate::bytecheck::panic_msg;
use crate::ctx::Ctx;
use crate::journal;
use crate::report::{hex, show, unhex, Frag};
use crate::subcheck::{event_names, events_take, sub_viol};
use crate::subgen::{self, Piece, SubCase};
use mvcore::hist::{parse_op, run_history, HistStats, History, Op};
use mvcore::oracle;
use mvcore::subs::{self, Ranker};
use proptest::prelude::*;
use serde_json::{json, Value};
use std::cell::RefCell;
use std::panic::{catch_unwind, AssertUnwindSafe};

// ---------------------------------------------------------------------------
// C10

fn table_from(seed: u64) -> [u8; 256] {
    let mut t = [0u8; 256];
    let mut x = seed | 1;
    for i in 0..256 {
        x ^= x << 13;
        x ^= x >> 7;
        x ^= x << 17;
        t[i] = (x >> 24) as u8;
    }
    t
}

/// C10 is a statement about builder configurations agreeing WITH EACH OTHER: every (ranker,
/// prefilter setting) must return the same `find` result and the same `find_iter` sequence.
/// The naive oracle is only used to say which side of a disagreement is the wrong one.
fn c10_one(ctx: &Ctx, needle: &[u8], hay: &[u8], table: &[u8; 256], pairs_out: &mut Vec<Option<(u8, u8)>>) -> Option<Value> {
    let mut results: Vec<(String, Option<usize>, Vec<usize>, bool)> = Vec::new();
    for rk in 0..subs::N_RANKERS {
        for none in [false, true] {
            let name = format!("Finder[ranker={},prefilter={}]", subs::RANKER_NAMES[rk as usize], if none { "None" } else { "Auto" });
            let r = catch_unwind(AssertUnwindSafe(|| {
                let ranker = Ranker::new(rk, table, needle);
                let f = subs::build_with_ranker(&ranker, none, needle);
                let r = f.find(hay);
                let run = subs::drive(f.find_iter(hay), hay.len() + 8, 0, false);
                (r, run.items, run.runaway || run.unfused)
            }));
            match r {
                // a panic in one configuration only is a difference as well; report it directly
                Err(p) => return Some(c10_viol(ctx, &name, "panic", needle, hay, table, "no panic", &panic_msg(&p))),
                Ok((r, items, bad)) => results.push((name, r, items, bad)),
            }
        }
        let ranker = Ranker::new(rk, table, needle);
        pairs_out.push(subs::pair_with_ranker(&ranker, needle).map(|p| (p.index1(), p.index2())));
    }
    let first = &results[0];
    if results.iter().all(|x| x.1 == first.1 && x.2 == first.2 && x.3 == first.3) {
        return None;
    }
    // name a configuration on the wrong side
    let e = oracle::naive_find(hay, needle);
    let eseq = oracle::greedy_fwd(hay, needle);
    let culprit = results.iter().find(|x| x.1 != e || x.2 != eseq || x.3).unwrap_or(&results[1]);
    let other = results.iter().find(|x| x.1 != culprit.1 || x.2 != culprit.2).unwrap_or(first);
    if culprit.1 != other.1 {
        Some(c10_viol(ctx, &culprit.0, "find", needle, hay, table, &format!("{:?} (as returned by {})", other.1, other.0), &format!("{:?}", culprit.1)))
    } else {
        Some(c10_viol(ctx, &culprit.0, "find_iter", needle, hay, table, &format!("{:?} (as yielded by {})", &other.2[..other.2.len().min(20)], other.0), &format!("{:?}", &culprit.2[..culprit.2.len().min(20)])))
    }
}

fn c10_viol(ctx: &Ctx, imp: &str, op: &str, needle: &[u8], hay: &[u8], table: &[u8; 256], exp: &str, obs: &str) -> Value {
    let mut v = sub_viol(ctx, imp, op, needle, hay, Place::Mid(0), exp, obs, "two builder configurations (ranker / prefilter setting) return different results for the same needle and haystack");
    v["kind"] = json!("c10");
    v["table"] = json!(hex(table));
    v
}

pub fn c10(ctx: &Ctx, stage: &str) -> Frag {
    let mut frag = ctx.frag(stage);
    frag.require(&["rankers select different pairs and the needle occurs"]);
    let cases = ctx.n(if stage == "c10-phases" { 40_000 } else { 120_000 }, 2_000_000);
    let cases = if mvcore::cfgs::cfg_emu() { cases / 4 } else { cases } as u32;
    struct St {
        frag: Frag,
        failed: Option<Value>,
    }
    let st = RefCell::new(St { frag, failed: None });
    let mut runner = crate::ctx::runner(ctx.stream_seed(stage), cases);
    let body = |(c, tseed, aim): (SubCase, u64, u8)| -> Result<(), TestCaseError> {
        let mut s = st.borrow_mut();
        let s = &mut *s;
        let table = table_from(tseed);
        // rebuild the haystack aimed at the pair that ranker `aim` selects
        let hay = if stage == "c10-phases" {
            let rk = Ranker::new(aim % subs::N_RANKERS, &table, &c.needle);
            let pair = subs::pair_with_ranker(&rk, &c.needle).map(|p| (p.index1() as usize, p.index2() as usize));
            subgen::build_haystack_with_pair(&c.needle, &c.pieces, 8192, pair)
        } else {
            c.hay.clone()
        };
        journal::set_ctx(&format!("{{\"stage\":\"{}\",\"needle\":\"{}\",\"hay\":\"{}\"}}", stage, hex(&c.needle), hex(&hay)));
        let _ = events_take();
        let mut pairs = Vec::new();
        let r = c10_one(ctx, &c.needle, &hay, &table, &mut pairs);
        if s.failed.is_none() {
            s.frag.evaluations += 1;
            let found = oracle::naive_find(&hay, &c.needle).is_some();
            let mut distinct = pairs.clone();
            distinct.sort();
            distinct.dedup();
            if distinct.len() >= 2 && found {
                s.frag.class("rankers select different pairs and the needle occurs");
                s.frag.nontrivial_hashes.insert(oracle::fnv(&[&c.needle, &hay, &table]));
                if s.frag.want_sample() && c.needle.len() < 30 && hay.len() < 150 {
                    s.frag.sample(json!({"stage":stage,"needle":show(&c.needle),"haystack":show(&hay),"pairs_by_ranker":format!("{:?}", pairs),"first":oracle::naive_find(&hay, &c.needle)}));
                }
            }
            if c.pieces.iter().any(|p| matches!(p, Piece::FalseCandidates(_))) {
                s.frag.class("built with a false-candidate stretch");
            }
            for e in event_names(events_take()) {
                s.frag.class(&format!("event: {}", e));
            }
        }
        if let Some(v) = r {
            s.failed = Some(v);
            return Err(TestCaseError::fail("violation"));
        }
        Ok(())
    };
    let res = if stage == "c10-phases" {
        runner.run(&(subgen::phase_case(), any::<u64>(), any::<u8>()), body)
    } else {
        runner.run(&(subgen::sub_case(), any::<u64>(), any::<u8>()), body)
    };
    let mut s = st.into_inner();
    if let Err(e) = &res {
        if let Some(v) = s.failed.take() {
            s.frag.violation(v);
        } else {
            s.frag.notes.push(format!("proptest aborted without a recorded violation: {}", e.to_string().chars().take(500).collect::<String>()));
        }
    }
    s.frag
}

pub fn c10_replay(ctx: &Ctx, v: &Value) -> Option<Value> {
    let needle = unhex(v["needle"].as_str().unwrap_or(""));
    let hay = unhex(v["haystack"].as_str().unwrap_or(""));
    let t = unhex(v["table"].as_str().unwrap_or(""));
    let mut table = [0u8; 256];
    if t.len() == 256 {
        table.copy_from_slice(&t);
    }
    let mut pairs = Vec::new();
    c10_one(ctx, &needle, &hay, &table, &mut pairs)
}

// ---------------------------------------------------------------------------
// C16

fn op() -> impl Strategy<Value = Op> {
    prop_oneof![
        6 => (any::<u8>(), any::<u8>()).prop_map(|(f, h)| Op::Find(f, h)),
        4 => (any::<u8>(), any::<u8>()).prop_map(|(f, h)| Op::Rfind(f, h)),
        3 => (any::<u8>(), any::<u8>()).prop_map(|(f, h)| Op::StartIter(f, h)),
        2 => (any::<u8>(), any::<u8>()).prop_map(|(f, h)| Op::StartRevIter(f, h)),
        8 => any::<u8>().prop_map(Op::Step),
        5 => any::<u8>().prop_map(Op::StepRev),
        2 => any::<u8>().prop_map(Op::CloneFinder),
        2 => any::<u8>().prop_map(Op::AsRef),
        2 => any::<u8>().prop_map(Op::IntoOwned),
        2 => any::<u8>().prop_map(Op::CloneIter),
        2 => any::<u8>().prop_map(Op::IntoOwnedIter),
        1 => any::<u8>().prop_map(Op::CloneRevIter),
        1 => any::<u8>().prop_map(Op::IntoOwnedRevIter),
        1 => any::<u8>().prop_map(Op::CheckNeedle),
        5 => (any::<u8>(), any::<u8>(), any::<u8>()).prop_map(|(f, h, m)| Op::Buf(f, h, m)),
        3 => any::<u8>().prop_map(Op::CloneDrop),
    ]
}

pub fn history() -> impl Strategy<Value = History> {
    (
        subgen::needle_spec(),
        prop::collection::vec((prop::collection::vec(subgen::piece(), 0..=8), 0u8..10, any::<u16>()), 2..=5),
        prop::collection::vec(op(), 0..=40),
        prop::collection::vec(op(), 0..=30),
        any::<bool>(),
    )
        .prop_map(|(spec, hs, before, after, phase)| {
            let needle = subgen::build_needle(&spec);
            let mut hays: Vec<Vec<u8>> = hs
                .iter()
                .map(|(pieces, class, f)| subgen::build_haystack(&needle, pieces, subgen::len_cap(needle.len(), *class, *f)))
                .collect();
            if phase && needle.len() >= 2 {
                // one haystack that exhausts the prefilter, one plain one with a match
                hays.push(subgen::build_haystack(&needle, &[Piece::FalseCandidates(80), Piece::Periods(3), Piece::Needle, Piece::Foreign(1, 30), Piece::Needle], 8192));
                hays.push(subgen::build_haystack(&needle, &[Piece::Foreign(7, 70), Piece::Needle], 8192));
            }
            hays.push(Vec::new());
            History { needle, hays, before, after }
        })
}

fn hist_json(h: &History) -> Value {
    json!({
        "needle": hex(&h.needle),
        "haystacks": h.hays.iter().map(|x| hex(x)).collect::<Vec<_>>(),
        "before": h.before.iter().map(|o| format!("{:?}", o)).collect::<Vec<_>>(),
        "after": h.after.iter().map(|o| format!("{:?}", o)).collect::<Vec<_>>(),
    })
}

fn hist_viol(ctx: &Ctx, h: &History, what: &str) -> Value {
    let config = ctx.config();
    let hj = hist_json(h);
    json!({
        "property": ctx.prop, "kind": "history", "config": config, "level": ctx.level, "impl": "Finder/FinderRev", "op": "history",
        "history": hj, "needles": show(&h.needle), "haystack_len": h.hays.iter().map(|x| x.len()).sum::<usize>() + h.before.len() + h.after.len(),
        "haystack_shown": format!("{} haystacks, {}+{} ops", h.hays.len(), h.before.len(), h.after.len()),
        "what": what, "expected": "every search equals a fresh finder's search of that haystack; clones / owned forms continue where the original would", "observed": what,
        "signature": format!("{}|{}|history|{}", ctx.prop, config, mvcore::oracle::fnv(&[hj.to_string().as_bytes()])),
    })
}

pub fn c16(ctx: &Ctx) -> Frag {
    let mut frag = ctx.frag("history-proptest");
    frag.require(&[">= 3 searches over different haystacks on one finder", "clone / into_owned taken from a partially consumed iterator", "owned finder or iterator used after the needle buffer was freed", ">= 2 searches of one reused buffer with different contents", "clone of an owned finder / iterator used after its source was dropped"]);
    let cases = ctx.n(60_000, 1_000_000);
    let cases = if mvcore::cfgs::cfg_emu() { cases / 4 } else { cases } as u32;
    struct St {
        frag: Frag,
        failed: Option<Value>,
        stats: HistStats,
    }
    let st = RefCell::new(St { frag, failed: None, stats: HistStats::default() });
    let mut runner = crate::ctx::runner(ctx.stream_seed("history-proptest"), cases);
    let res = runner.run(&history(), |h| {
        let mut s = st.borrow_mut();
        let s = &mut *s;
        journal::set_ctx(&format!("{{\"stage\":\"history\",\"needle\":\"{}\"}}", hex(&h.needle)));
        let mut hs = HistStats::default();
        let r = catch_unwind(AssertUnwindSafe(|| run_history(&h, &mut hs)));
        if s.failed.is_none() {
            s.frag.evaluations += 1;
            let mut nt = false;
            let finds = h.before.iter().filter(|o| matches!(o, Op::Find(..) | Op::Rfind(..))).count();
            if finds >= 3 && h.hays.len() >= 3 {
                s.frag.class(">= 3 searches over different haystacks on one finder");
                nt = true;
            }
            if hs.clones_of_partial > 0 {
                s.frag.class("clone / into_owned taken from a partially consumed iterator");
                nt = true;
            }
            if hs.owned_after_drop > 0 && h.before.iter().any(|o| matches!(o, Op::IntoOwned(_) | Op::StartIter(..) | Op::IntoOwnedIter(_))) {
                s.frag.class("owned finder or iterator used after the needle buffer was freed");
            }
            if hs.clone_drops > 0 {
                s.frag.class("clone of an owned finder / iterator used after its source was dropped");
                nt = true;
            }
            if hs.buf_searches >= 2 {
                s.frag.class(">= 2 searches of one reused buffer with different contents");
                nt = true;
            }
            if nt {
                s.frag.nontrivial_hashes.insert(oracle::fnv(&[hist_json(&h).to_string().as_bytes()]));
                if s.frag.want_sample() && h.needle.len() < 20 && h.before.len() < 12 && h.before.len() > 3 {
                    s.frag.sample(json!({"stage":"history","needle":show(&h.needle),"haystacks":h.hays.iter().map(|x| show(x)).collect::<Vec<_>>(),
                        "ops_before_needle_is_freed":h.before.iter().map(|o| format!("{:?}", o)).collect::<Vec<_>>(),
                        "ops_after":h.after.iter().map(|o| format!("{:?}", o)).collect::<Vec<_>>()}));
                }
            }
            s.stats.searches += hs.searches;
            s.stats.buf_searches += hs.buf_searches;
            s.stats.steps += hs.steps;
            s.stats.clones_of_partial += hs.clones_of_partial;
            s.stats.owned_after_drop += hs.owned_after_drop;
        }
        let bad = match r {
            Ok(Ok(())) => None,
            Ok(Err(e)) => Some(e),
            Err(p) => Some(format!("panic: {}", panic_msg(&p))),
        };
        if let Some(e) = bad {
            s.failed = Some(hist_viol(ctx, &h, &e));
            return Err(TestCaseError::fail("violation"));
        }
        Ok(())
    });
    let mut s = st.into_inner();
    if let Err(e) = &res {
        if let Some(v) = s.failed.take() {
            s.frag.violation(v);
        } else {
            s.frag.notes.push(format!("proptest aborted without a recorded violation: {}", e.to_string().chars().take(500).collect::<String>()));
        }
    }
    s.frag.extra.insert("searches".into(), json!(s.stats.searches));
    s.frag.extra.insert("searches_of_reused_buffer".into(), json!(s.stats.buf_searches));
    s.frag.extra.insert("iterator_steps".into(), json!(s.stats.steps));
    s.frag.extra.insert("clones_of_partially_consumed".into(), json!(s.stats.clones_of_partial));
    s.frag.extra.insert("ops_after_needle_freed".into(), json!(s.stats.owned_after_drop));
    s.frag
}

pub fn c16_replay(ctx: &Ctx, v: &Value) -> Option<Value> {
    let hj = &v["history"];
    let h = History {
        needle: unhex(hj["needle"].as_str().unwrap_or("")),
        hays: hj["haystacks"].as_array().map(|a| a.iter().map(|x| unhex(x.as_str().unwrap_or(""))).collect()).unwrap_or_default(),
        before: hj["before"].as_array().map(|a| a.iter().filter_map(|x| parse_op(x.as_str().unwrap_or(""))).collect()).unwrap_or_default(),
        after: hj["after"].as_array().map(|a| a.iter().filter_map(|x| parse_op(x.as_str().unwrap_or(""))).collect()).unwrap_or_default(),
    };
    if h.hays.is_empty() {
        return None;
    }
    let mut hs = HistStats::default();
    let _ = Arena::new(1);
    match catch_unwind(AssertUnwindSafe(|| run_history(&h, &mut hs))) {
        Ok(Ok(())) => None,
        Ok(Err(e)) => Some(hist_viol(ctx, &h, &e)),
        Err(p) => Some(hist_viol(ctx, &h, &format!("panic: {}", panic_msg(&p)))),
    }
}
