//! Command line context shared by all sub-commands.

use crate::report::Frag;

#[derive(Clone, Debug)]
pub struct Ctx {
    pub cmd: String,
    pub prop: String,
    pub thorough: bool,
    pub seed: u64,
    pub shard: usize,
    pub shards: usize,
    pub level: u8,
    pub out: Option<String>,
    pub replay_dir: String,
    pub rest: Vec<String>,
    pub scale: f64,
}

impl Ctx {
    pub fn parse(args: &[String]) -> Ctx {
        let mut c = Ctx {
            cmd: args.get(0).cloned().unwrap_or_default(),
            prop: String::new(),
            thorough: false,
            seed: 0,
            shard: 0,
            shards: 1,
            level: 0,
            out: None,
            replay_dir: "/verif/replays".to_string(),
            rest: Vec::new(),
            scale: 1.0,
        };
        let mut i = 1;
        while i < args.len() {
            let a = &args[i];
            let mut val = || {
                i += 1;
                args.get(i).cloned().unwrap_or_else(|| {
                    eprintln!("missing value for {}", a);
                    std::process::exit(2)
                })
            };
            match a.as_str() {
                "--prop" => c.prop = val(),
                "--tier" => c.thorough = val() == "thorough",
                "--seed" => c.seed = val().parse().unwrap_or(0),
                "--shard" => {
                    let v = val();
                    let mut it = v.split('/');
                    c.shard = it.next().unwrap().parse().unwrap();
                    c.shards = it.next().unwrap().parse().unwrap();
                }
                "--level" => {
                    c.level = match val().as_str() {
                        "auto" | "0" => 0,
                        "sse2" | "1" => 1,
                        _ => 2,
                    }
                }
                "--out" => c.out = Some(val()),
                "--replay-dir" => c.replay_dir = val(),
                "--scale" => c.scale = val().parse().unwrap_or(1.0),
                _ => c.rest.push(a.clone()),
            }
            i += 1;
        }
        c
    }

    pub fn config(&self) -> String {
        mvcore::cfgs::config_name()
    }

    pub fn frag(&self, stage: &str) -> Frag {
        Frag::new(
            &self.prop,
            stage,
            &self.config(),
            &format!("{}/{}", self.shard, self.shards),
            self.seed,
        )
    }

    /// Seed of an independent stream for this (stage, shard).
    pub fn stream_seed(&self, stage: &str) -> u64 {
        let mut h = mvcore::oracle::fnv(&[
            stage.as_bytes(),
            &self.seed.to_le_bytes(),
            &(self.shard as u64).to_le_bytes(),
            self.prop.as_bytes(),
        ]);
        if h == 0 {
            h = 1;
        }
        h
    }

    /// Scale a case count by tier and --scale.
    pub fn n(&self, quick: u64, thorough: u64) -> u64 {
        let base = if self.thorough { thorough } else { quick };
        let per = (base as f64 * self.scale) as u64 / self.shards as u64;
        per.max(1)
    }

    pub fn mine(&self, i: usize) -> bool {
        i % self.shards == self.shard
    }

    pub fn finish(&self, frag: Frag) -> ! {
        let failed = frag.failed();
        if let Some(out) = &self.out {
            frag.write(out);
        } else {
            println!("{}", serde_json::to_string_pretty(&frag.to_json()).unwrap());
        }
        std::process::exit(if failed { 1 } else { 0 })
    }
}

/// A proptest runner whose only source of randomness is the given seed.
pub fn runner(seed: u64, cases: u32) -> proptest::test_runner::TestRunner {
    runner_shrink(seed, cases, 4096)
}

/// For stages whose failing cases are expensive to re-run (super-linear cost is the failure): few shrink steps.
pub fn runner_shrink(seed: u64, cases: u32, max_shrink_iters: u32) -> proptest::test_runner::TestRunner {
    use proptest::test_runner::{Config, RngAlgorithm, RngSeed, TestRunner};
    let mut cfg = Config::default();
    cfg.cases = cases;
    cfg.failure_persistence = None;
    cfg.rng_algorithm = RngAlgorithm::ChaCha;
    cfg.rng_seed = RngSeed::Fixed(seed);
    cfg.max_shrink_iters = max_shrink_iters;
    cfg.max_global_rejects = 65536;
    cfg.verbose = 0;
    TestRunner::new(cfg)
}
