//! Generators for substring cases: structured needles and haystacks that are
//! built *from* the needle (occurrences, borders, periods, near misses,
//! hash-equal near misses, false-candidate stretches).

use memchr::arch::all::packedpair::Pair;
use mvcore::oracle;
use proptest::prelude::*;

pub fn fib_word(a: u8, b: u8, len: usize) -> Vec<u8> {
    // s0 = b, s1 = a, s_n = s_{n-1} s_{n-2}
    let mut x = vec![b];
    let mut y = vec![a];
    while y.len() < len {
        let mut z = y.clone();
        z.extend_from_slice(&x);
        x = y;
        y = z;
    }
    y.truncate(len);
    y
}

pub fn thue_morse(a: u8, b: u8, len: usize) -> Vec<u8> {
    (0..len).map(|i| if (i as u64).count_ones() % 2 == 0 { a } else { b }).collect()
}

fn xorshift(x: &mut u64) -> u64 {
    *x ^= *x << 13;
    *x ^= *x >> 7;
    *x ^= *x << 17;
    *x
}

#[derive(Clone, Debug)]
pub struct NeedleSpec {
    pub kind: u8,
    pub len: usize,
    pub a: u8,
    pub b: u8,
    pub ulen: usize,
    pub bits: u64,
}

pub const NEEDLE_KINDS: [&str; 14] = [
    "random-256",
    "random-small-alphabet",
    "periodic u^k",
    "periodic u^k v",
    "periodic v u^k",
    "periodic u^k with one byte changed",
    "fibonacci",
    "thue-morse",
    "single letter",
    "bytes colliding mod 64",
    "common bytes + one rare byte",
    "two equal rare bytes",
    "v W^k with W a word of 9..=24 distinct letters",
    "u^k c u^k b (two equal periodic halves, each closed by its own byte)",
];

pub fn build_needle(s: &NeedleSpec) -> Vec<u8> {
    let len = s.len;
    let mut x = s.bits | 1;
    let mut v: Vec<u8> = Vec::with_capacity(len);
    match s.kind {
        0 => {
            for _ in 0..len {
                v.push((xorshift(&mut x) >> 24) as u8);
            }
        }
        1 => {
            let k = 2 + (s.bits % 3) as usize; // alphabet of 2..4 letters
            let letters = [s.a, s.b, s.a ^ 0x20, s.b.wrapping_add(1)];
            for _ in 0..len {
                v.push(letters[(xorshift(&mut x) >> 20) as usize % k]);
            }
        }
        2 | 3 | 4 | 5 => {
            let ul = s.ulen.max(1).min(len.max(1));
            let letters = [s.a, s.b, s.a.wrapping_add(1)];
            let u: Vec<u8> = (0..ul).map(|_| letters[(xorshift(&mut x) >> 20) as usize % 3]).collect();
            let vl = if s.kind == 3 || s.kind == 4 { 1 + (s.bits as usize >> 8) % ul.max(1) } else { 0 };
            let tail: Vec<u8> = (0..vl).map(|_| letters[(xorshift(&mut x) >> 20) as usize % 3] ^ 0x01).collect();
            if s.kind == 4 {
                v.extend_from_slice(&tail[..vl.min(len)]);
            }
            let mut i = 0;
            while v.len() + if s.kind == 3 { vl.min(len) } else { 0 } < len {
                v.push(u[i % ul]);
                i += 1;
            }
            if s.kind == 3 {
                v.extend_from_slice(&tail[..vl.min(len)]);
            }
            v.truncate(len);
            if s.kind == 5 && len > 0 {
                let p = (s.bits as usize >> 16) % len;
                v[p] ^= 0x01;
            }
        }
        6 => v = fib_word(s.a, s.b, len),
        7 => v = thue_morse(s.a, s.b, len),
        8 => v = vec![s.a; len],
        9 => {
            for _ in 0..len {
                v.push((s.a % 64).wrapping_add(64 * ((xorshift(&mut x) >> 20) as u8 % 4)));
            }
        }
        10 => {
            let common = b" etaoinshr";
            for _ in 0..len {
                v.push(common[(xorshift(&mut x) >> 20) as usize % common.len()]);
            }
            if len > 0 {
                let where_ = (s.bits >> 4) % 5;
                let p = match where_ {
                    0 => 0,
                    1 => len / 2,
                    2 => len - 1,
                    3 => {
                        if len > 256 {
                            255 + (s.bits as usize >> 8) % (len - 255)
                        } else {
                            len - 1
                        }
                    }
                    _ => (s.bits as usize >> 8) % len,
                };
                v[p] = [b'Q', 0xF7, b'~', 0x00][(s.bits as usize >> 2) % 4];
            }
        }
        12 => {
            let wl = 9 + (s.bits as usize >> 3) % 16;
            let pool = b"eaiotnslrhdcumZqwfgypbvkjxQ0123456789";
            let start = (s.bits as usize >> 12) % pool.len();
            let w: Vec<u8> = (0..wl).map(|i| pool[(start + i * 7) % pool.len()]).collect();
            let vl = 1 + (s.bits as usize >> 20) % 3;
            for i in 0..vl.min(len) {
                v.push([s.a, b'a', b'#'][i % 3]);
            }
            let mut i = 0;
            while v.len() < len {
                v.push(w[i % wl]);
                i += 1;
            }
        }
        13 => {
            let ul = 1 + (s.bits as usize >> 5) % 3;
            let unit: Vec<u8> = (0..ul).map(|i| [s.a, s.b, b'a'][i % 3]).collect();
            let half = len.saturating_sub(2) / 2;
            let c = if unit.contains(&b'c') { b'#' } else { b'c' };
            let d = if unit.contains(&b'd') { b'%' } else { b'd' };
            for i in 0..half {
                v.push(unit[i % ul]);
            }
            if v.len() < len {
                v.push(c);
            }
            for i in 0..half {
                if v.len() < len {
                    v.push(unit[i % ul]);
                }
            }
            while v.len() < len {
                v.push(d);
            }
        }
        _ => {
            let common = b"eta ";
            for _ in 0..len {
                v.push(common[(xorshift(&mut x) >> 20) as usize % common.len()]);
            }
            if len >= 2 {
                let p = (s.bits as usize >> 8) % len;
                let mut q = (s.bits as usize >> 24) % len;
                if q == p {
                    q = (p + 1) % len;
                }
                v[p] = b'Z';
                v[q] = b'Z';
            }
        }
    }
    v
}

pub fn needle_spec() -> impl Strategy<Value = NeedleSpec> {
    let len = prop_oneof![
        1 => Just(0usize),
        1 => Just(1usize),
        6 => 2usize..=32,
        3 => 33usize..=64,
        6 => 65usize..=600,
        1 => 601usize..=3000,
    ];
    (0u8..14, len, any::<u8>(), any::<u8>(), 1usize..=12, any::<u64>()).prop_map(|(kind, len, a, b, ulen, bits)| {
        let b = if b == a { a.wrapping_add(1) } else { b };
        NeedleSpec { kind, len, a, b, ulen, bits }
    })
}

/// One building block of a haystack.
#[derive(Clone, Debug)]
pub enum Piece {
    Needle,
    Prefix(u16),
    Suffix(u16),
    /// needle[..period] repeated r times
    Periods(u8),
    /// needle with one byte changed at a fraction of its length
    NearMiss(u16, u8),
    /// needle with two adjacent bytes changed so that the Rabin-Karp hash is unchanged
    HashEqual(u16),
    /// needle with a change confined to the bytes the 32-bit rolling hash no longer sees
    HashBlind(u16),
    RareRun(u8),
    Foreign(u8, u16),
    Noise(u16, u64),
    /// both pair bytes at their offsets every s bytes, `count` times
    FalseCandidates(u8),
    /// a long candidate-free prefix (keeps an adaptive prefilter effective)
    LongQuiet(u16),
    /// needle[k..] needle[..k]: a phase shift of a periodic needle
    Rotation(u16),
    /// a run of one byte taken from the needle at a fraction of its length (0 = first, 65535 = last)
    NeedleByteRun(u16, u16),
    /// the smallest period of the needle's second half, repeated r times
    SuffixPeriods(u8),
}

pub fn piece() -> impl Strategy<Value = Piece> {
    prop_oneof![
        5 => Just(Piece::Needle),
        3 => (0u16..=65535).prop_map(Piece::Prefix),
        3 => (0u16..=65535).prop_map(Piece::Suffix),
        3 => (1u8..=12).prop_map(Piece::Periods),
        4 => ((0u16..=65535), any::<u8>()).prop_map(|(f, x)| Piece::NearMiss(f, x)),
        2 => (0u16..=65535).prop_map(Piece::HashEqual),
        1 => (0u16..=65535).prop_map(Piece::HashBlind),
        2 => (1u8..=40).prop_map(Piece::RareRun),
        3 => (any::<u8>(), 1u16..=80).prop_map(|(b, n)| Piece::Foreign(b, n)),
        3 => ((1u16..=120), any::<u64>()).prop_map(|(n, s)| Piece::Noise(n, s)),
        2 => (50u8..=90).prop_map(Piece::FalseCandidates),
        1 => prop_oneof![4 => 200u16..=2000, 1 => 2001u16..=40000].prop_map(Piece::LongQuiet),
        2 => (0u16..=65535).prop_map(Piece::Rotation),
        2 => (prop_oneof![Just(0u16), Just(65535u16), any::<u16>()], 1u16..=200).prop_map(|(f, k)| Piece::NeedleByteRun(f, k)),
        2 => (1u8..=12).prop_map(Piece::SuffixPeriods),
    ]
}

pub fn foreign_byte(needle: &[u8], hint: u8) -> u8 {
    let mut b = hint;
    for _ in 0..256 {
        if !needle.contains(&b) {
            return b;
        }
        b = b.wrapping_add(1);
    }
    b
}

fn frac(f: u16, n: usize) -> usize {
    ((f as u64 * n as u64) >> 16) as usize
}

/// The pair of offsets the crate's default heuristic selects (used only to
/// *aim* generated haystacks at the prefilter, never to judge).
pub fn default_pair(needle: &[u8]) -> Option<(usize, usize)> {
    std::panic::catch_unwind(|| Pair::new(needle).map(|p| (p.index1() as usize, p.index2() as usize))).ok().flatten()
}

/// Returns the haystack and, per piece, the range it occupies.
pub fn build_haystack(needle: &[u8], pieces: &[Piece], max_len: usize) -> Vec<u8> {
    build_haystack_with_pair(needle, pieces, max_len, default_pair(needle))
}

/// Like `build_haystack`, aiming rare-byte runs and false candidates at the given pair of needle offsets.
pub fn build_haystack_with_pair(needle: &[u8], pieces: &[Piece], max_len: usize, pair: Option<(usize, usize)>) -> Vec<u8> {
    let n = needle.len();
    let per = oracle::period(needle);
    let mut h: Vec<u8> = Vec::new();
    for p in pieces {
        if h.len() >= max_len {
            break;
        }
        match p {
            Piece::Needle => h.extend_from_slice(needle),
            Piece::Prefix(f) => h.extend_from_slice(&needle[..frac(*f, n + 1)]),
            Piece::Suffix(f) => h.extend_from_slice(&needle[n - frac(*f, n + 1)..]),
            Piece::Periods(r) => {
                for _ in 0..*r {
                    h.extend_from_slice(&needle[..per]);
                }
            }
            Piece::NearMiss(f, x) => {
                let start = h.len();
                h.extend_from_slice(needle);
                if n > 0 {
                    // early / middle / late positions are all reachable through f
                    let p = frac(*f, n);
                    let nb = if *x == 0 { 1 } else { *x };
                    h[start + p] ^= nb;
                }
            }
            Piece::HashEqual(f) => {
                let start = h.len();
                h.extend_from_slice(needle);
                if n >= 2 {
                    // hash = sum b_i 2^(n-1-i): b_i + 1 and b_{i+1} - 2 cancel
                    let mut p = frac(*f, n - 1);
                    let mut done = false;
                    for _ in 0..n - 1 {
                        if needle[p] < 255 && needle[p + 1] >= 2 {
                            h[start + p] += 1;
                            h[start + p + 1] -= 2;
                            done = true;
                            break;
                        }
                        if needle[p] >= 1 && needle[p + 1] <= 253 {
                            h[start + p] -= 1;
                            h[start + p + 1] += 2;
                            done = true;
                            break;
                        }
                        p = (p + 1) % (n - 1);
                    }
                    if !done {
                        h[start] ^= 0x40;
                    }
                }
            }
            Piece::HashBlind(f) => {
                let start = h.len();
                h.extend_from_slice(needle);
                if n > 33 {
                    // bytes before the last 32 are shifted out of the 32-bit hash
                    let p = frac(*f, n - 33);
                    h[start + p] ^= 0x55;
                } else if n > 0 {
                    h[start + frac(*f, n)] ^= 0x02;
                }
            }
            Piece::RareRun(k) => {
                let b = match pair {
                    Some((i1, _)) => needle[i1],
                    None => needle.first().copied().unwrap_or(b'r'),
                };
                for _ in 0..*k {
                    h.push(b);
                }
            }
            Piece::Foreign(b, k) => {
                let fb = foreign_byte(needle, *b);
                for _ in 0..*k {
                    h.push(fb);
                }
            }
            Piece::Noise(k, seed) => {
                let mut x = *seed | 1;
                for _ in 0..*k {
                    let r = xorshift(&mut x);
                    if n > 0 {
                        h.push(needle[(r >> 20) as usize % n]);
                    } else {
                        h.push((r >> 20) as u8);
                    }
                }
            }
            Piece::FalseCandidates(count) => {
                if let Some((i1, i2)) = pair {
                    let d = if i1 > i2 { i1 - i2 } else { i2 - i1 };
                    let mut s = 2;
                    while s < 17 && d % s == 0 {
                        s += 1;
                    }
                    let fb = foreign_byte(needle, 0xA5);
                    let start = h.len();
                    let total = *count as usize * s + n;
                    h.resize(start + total, fb);
                    for k in 0..*count as usize {
                        h[start + k * s + i1] = needle[i1];
                        h[start + k * s + i2] = needle[i2];
                    }
                } else {
                    for _ in 0..*count {
                        h.extend_from_slice(needle);
                    }
                }
            }
            Piece::LongQuiet(k) => {
                let fb = foreign_byte(needle, 0x5A);
                for _ in 0..*k {
                    h.push(fb);
                }
            }
            Piece::SuffixPeriods(r) => {
                if n > 0 {
                    let half = &needle[n / 2..];
                    let p = oracle::period(half).max(1);
                    for _ in 0..*r {
                        h.extend_from_slice(&half[..p.min(half.len())]);
                    }
                }
            }
            Piece::NeedleByteRun(f, k) => {
                if n > 0 {
                    let b = needle[frac(*f, n).min(n - 1)];
                    for _ in 0..*k {
                        h.push(b);
                    }
                }
            }
            Piece::Rotation(f) => {
                if n > 0 {
                    let k = frac(*f, n);
                    h.extend_from_slice(&needle[k..]);
                    h.extend_from_slice(&needle[..k]);
                }
            }
        }
    }
    h.truncate(max_len);
    h
}

/// Length cap classes for the haystack, relative to the needle.
pub fn len_cap(needle_len: usize, class: u8, f: u16) -> usize {
    match class {
        0 => frac(f, needle_len.max(1)),                 // shorter than the needle
        1 => needle_len,                                  // exactly the needle length
        2 => needle_len + frac(f, 16),                    // barely longer
        3 => 15.max(needle_len.min(15)),                  // < 16 route
        4 => 63,                                          // < 64 one-shot route
        5 => needle_len + 24 + frac(f, 48),               // around the vector minimum
        6 => 64 + frac(f, 200),
        7 | 8 => 4096,
        _ => 70000,
    }
}

#[derive(Clone, Debug)]
pub struct SubCase {
    pub spec: NeedleSpec,
    pub needle: Vec<u8>,
    pub pieces: Vec<Piece>,
    pub hay: Vec<u8>,
}

pub fn sub_case() -> impl Strategy<Value = SubCase> {
    (needle_spec(), prop::collection::vec(piece(), 0..=10), 0u8..10, any::<u16>()).prop_map(|(spec, pieces, class, f)| {
        let needle = build_needle(&spec);
        let cap = len_cap(needle.len(), class, f);
        let hay = build_haystack(&needle, &pieces, cap);
        SubCase { spec, needle, pieces, hay }
    })
}

/// Cases aimed at the adaptive prefilter and Two-Way's period memory:
/// [optional long quiet prefix] false candidates, then periodic material
/// `u^j z u^k`, then an occurrence.
pub fn phase_case() -> impl Strategy<Value = SubCase> {
    (needle_spec(), any::<bool>(), 50u8..=90, 1u8..=10, any::<u16>(), 1u8..=10, prop::collection::vec(piece(), 0..=4), any::<bool>()).prop_map(
        |(mut spec, quiet, fc, j, z, k, tail, occ)| {
            if spec.len < 2 {
                spec.len = 2 + (spec.bits % 60) as usize;
            }
            let needle = build_needle(&spec);
            let mut pieces = Vec::new();
            if quiet {
                pieces.push(Piece::LongQuiet(1500));
            }
            pieces.push(Piece::FalseCandidates(fc));
            pieces.push(Piece::Periods(j));
            pieces.push(Piece::NearMiss(z, 1));
            pieces.push(Piece::Periods(k));
            pieces.push(Piece::Rotation(z.wrapping_mul(31)));
            if occ {
                pieces.push(Piece::Needle);
            }
            pieces.extend(tail);
            let hay = build_haystack(&needle, &pieces, 8192);
            SubCase { spec, needle, pieces, hay }
        },
    )
}

/// Short haystacks around a long needle whose rare byte sits late: the
/// route through the vector prefilter's short-haystack fallback.
pub fn short_fallback_case() -> impl Strategy<Value = SubCase> {
    (33usize..=300, any::<u64>(), 0usize..=40, 0usize..=40, any::<u8>(), 0u8..4).prop_map(|(len, bits, pre, post, fb, mode)| {
        let spec = NeedleSpec { kind: 10, len, a: b'e', b: b't', ulen: 1, bits: (bits & !0xF0) | ((2 + (bits >> 60) % 2) << 4) };
        let needle = build_needle(&spec);
        let mut pieces = Vec::new();
        match mode {
            0 => {
                pieces.push(Piece::Foreign(fb, pre as u16));
                pieces.push(Piece::Needle);
                pieces.push(Piece::Foreign(fb, post as u16));
            }
            1 => {
                pieces.push(Piece::Noise(pre as u16, bits));
                pieces.push(Piece::Needle);
            }
            2 => {
                // long haystack, a lone rare byte shortly before the final occurrence
                pieces.push(Piece::LongQuiet(300 + pre as u16 * 8));
                pieces.push(Piece::RareRun(1));
                pieces.push(Piece::Foreign(fb, 1 + post as u16 % 8));
                pieces.push(Piece::Needle);
                pieces.push(Piece::Foreign(fb, post as u16 % 20));
            }
            _ => {
                pieces.push(Piece::NearMiss((bits >> 20) as u16, 1));
                pieces.push(Piece::Needle);
                pieces.push(Piece::Noise(post as u16, bits));
            }
        }
        let hay = build_haystack(&needle, &pieces, 8192);
        SubCase { spec, needle, pieces, hay }
    })
}
