//! Case files: a line-oriented description of search cases that `mvexec`
//! executes in any configuration (native feature/flag builds, Miri targets)
//! and answers with one line of observations per case. Generation and judging
//! happen natively in `mv`.

use crate::bytes::{self, ByteSearcher};
use crate::subs::{self, SubSet};
use memchr::arch::all::packedpair::Pair;
use std::fmt::Write as _;
use std::panic::{catch_unwind, AssertUnwindSafe};

pub fn hex(b: &[u8]) -> String {
    let mut s = String::with_capacity(b.len() * 2);
    for x in b {
        let _ = write!(s, "{:02x}", x);
    }
    if s.is_empty() {
        s.push('-');
    }
    s
}

pub fn unhex(s: &str) -> Vec<u8> {
    if s == "-" {
        return Vec::new();
    }
    let b = s.as_bytes();
    let mut v = Vec::with_capacity(b.len() / 2);
    let mut i = 0;
    while i + 1 < b.len() {
        let h = (b[i] as char).to_digit(16).unwrap_or(0) as u8;
        let l = (b[i + 1] as char).to_digit(16).unwrap_or(0) as u8;
        v.push(h << 4 | l);
        i += 2;
    }
    v
}

#[derive(Clone, Debug, PartialEq)]
pub enum Case {
    /// byte search: alignment mod 64, needles (1..=3), haystack
    Byte { align: usize, needles: Vec<u8>, hay: Vec<u8> },
    /// byte iterator with a call pattern (bytes::IT_*)
    Iter { align: usize, needles: Vec<u8>, hay: Vec<u8>, pattern: Vec<u8> },
    /// substring search, everything
    Sub { align: usize, needle: Vec<u8>, hay: Vec<u8> },
    /// packed pair with explicit offsets
    Pair { align: usize, needle: Vec<u8>, i1: u8, i2: u8, hay: Vec<u8> },
    /// is_equal / is_prefix / is_suffix
    Eq { ax: usize, ay: usize, x: Vec<u8>, y: Vec<u8> },
    /// finder / iterator history (C16)
    #[cfg(any(feature = "std", feature = "alloc"))]
    Hist(crate::hist::History),
}

impl Case {
    pub fn encode(&self) -> String {
        match self {
            Case::Byte { align, needles, hay } => format!("B {} {} {}", align, hex(needles), hex(hay)),
            Case::Iter { align, needles, hay, pattern } => format!("I {} {} {} {}", align, hex(needles), hex(hay), hex(pattern)),
            Case::Sub { align, needle, hay } => format!("S {} {} {}", align, hex(needle), hex(hay)),
            Case::Pair { align, needle, i1, i2, hay } => format!("P {} {} {} {} {}", align, hex(needle), i1, i2, hex(hay)),
            Case::Eq { ax, ay, x, y } => format!("E {} {} {} {}", ax, ay, hex(x), hex(y)),
            #[cfg(any(feature = "std", feature = "alloc"))]
            Case::Hist(h) => h.encode(),
        }
    }

    pub fn decode(line: &str) -> Option<Case> {
        let f: Vec<&str> = line.split_whitespace().collect();
        match *f.get(0)? {
            "B" => Some(Case::Byte { align: f.get(1)?.parse().ok()?, needles: unhex(f.get(2)?), hay: unhex(f.get(3)?) }),
            "I" => Some(Case::Iter { align: f.get(1)?.parse().ok()?, needles: unhex(f.get(2)?), hay: unhex(f.get(3)?), pattern: unhex(f.get(4)?) }),
            "S" => Some(Case::Sub { align: f.get(1)?.parse().ok()?, needle: unhex(f.get(2)?), hay: unhex(f.get(3)?) }),
            "P" => Some(Case::Pair { align: f.get(1)?.parse().ok()?, needle: unhex(f.get(2)?), i1: f.get(3)?.parse().ok()?, i2: f.get(4)?.parse().ok()?, hay: unhex(f.get(5)?) }),
            #[cfg(any(feature = "std", feature = "alloc"))]
            "H" => crate::hist::History::decode(line).map(Case::Hist),
            "E" => Some(Case::Eq { ax: f.get(1)?.parse().ok()?, ay: f.get(2)?.parse().ok()?, x: unhex(f.get(3)?), y: unhex(f.get(4)?) }),
            _ => None,
        }
    }
}

/// A copy of `data` whose first byte sits at an address congruent to
/// `align` modulo 64. No slack is read by the crate: the slice is exact.
#[cfg(not(miri))]
pub struct Placed {
    buf: Vec<u8>,
    off: usize,
    len: usize,
}

#[cfg(not(miri))]
impl Placed {
    pub fn new(data: &[u8], align: usize) -> Placed {
        let mut buf = vec![0xA5u8; data.len() + 128];
        let base = buf.as_ptr() as usize;
        let off = (64 - base % 64) % 64 + align % 64;
        buf[off..off + data.len()].copy_from_slice(data);
        Placed { buf, off, len: data.len() }
    }
    pub fn get(&self) -> &[u8] {
        &self.buf[self.off..self.off + self.len]
    }
}

/// Under Miri the allocation is the bounds oracle: the data sits at the very end of a 64-aligned
/// allocation of exactly `align + len` bytes (a read past the slice leaves the allocation), or - one
/// case in three - at its very start (a read in front of the slice does).
#[cfg(miri)]
pub struct Placed {
    ptr: *mut u8,
    layout: core::alloc::Layout,
    off: usize,
    len: usize,
}

#[cfg(miri)]
impl Placed {
    pub fn new(data: &[u8], align: usize) -> Placed {
        extern crate alloc;
        let a = align % 64;
        let start_exact = (data.len() + align) % 3 == 0;
        let (off, size) = if start_exact { (0, data.len() + 64) } else { (a, a + data.len()) };
        let layout = core::alloc::Layout::from_size_align(size.max(1), 64).unwrap();
        unsafe {
            let ptr = alloc::alloc::alloc(layout);
            assert!(!ptr.is_null());
            core::ptr::write_bytes(ptr, 0xA5, size.max(1));
            core::ptr::copy_nonoverlapping(data.as_ptr(), ptr.add(off), data.len());
            Placed { ptr, layout, off, len: data.len() }
        }
    }
    pub fn get(&self) -> &[u8] {
        unsafe { core::slice::from_raw_parts(self.ptr.add(self.off), self.len) }
    }
}

#[cfg(miri)]
impl Drop for Placed {
    fn drop(&mut self) {
        extern crate alloc;
        unsafe { alloc::alloc::dealloc(self.ptr, self.layout) }
    }
}

fn opt(o: Option<usize>) -> String {
    match o {
        None => "N".into(),
        Some(i) => i.to_string(),
    }
}

fn seq(v: &[usize]) -> String {
    if v.is_empty() {
        return "[]".into();
    }
    let mut s = String::from("[");
    for (i, x) in v.iter().enumerate() {
        if i > 0 {
            s.push(',');
        }
        let _ = write!(s, "{}", x);
    }
    s.push(']');
    s
}

macro_rules! guarded {
    ($e:expr) => {
        match catch_unwind(AssertUnwindSafe(|| $e)) {
            Ok(s) => s,
            Err(_) => "P".to_string(),
        }
    };
}

/// Observations of one case: `name=value` items separated by spaces. Names
/// are stable across configurations; an implementation that does not exist
/// in a configuration is simply absent.
pub fn exec_case(c: &Case) -> String {
    let mut out = String::new();
    let mut put = |k: &str, v: String| {
        if !out.is_empty() {
            out.push(' ');
        }
        out.push_str(k);
        out.push('=');
        out.push_str(&v);
    };
    match c {
        Case::Byte { align, needles, hay } => {
            let p = Placed::new(hay, *align);
            let h = p.get();
            for imp in 0..bytes::N_IMPLS as u8 {
                let s: Box<dyn ByteSearcher> = match bytes::make(imp, needles) {
                    Some(s) => s,
                    None => continue,
                };
                let n = bytes::IMPL_NAMES[imp as usize];
                put(&format!("{}.find", n), guarded!(opt(s.find(h))));
                put(&format!("{}.rfind", n), guarded!(opt(s.rfind(h))));
                if needles.len() == 1 {
                    put(&format!("{}.count", n), guarded!(match s.count(h) { Some(c) => c.to_string(), None => "-".into() }));
                }
                if bytes::has_raw(imp) {
                    let st = h.as_ptr();
                    let en = unsafe { st.add(h.len()) };
                    put(&format!("{}.find_raw", n), guarded!(unsafe { match s.find_raw(st, en) { Ok(r) => opt(r), Err(()) => "OUTSIDE".into() } }));
                    put(&format!("{}.rfind_raw", n), guarded!(unsafe { match s.rfind_raw(st, en) { Ok(r) => opt(r), Err(()) => "OUTSIDE".into() } }));
                    put(&format!("{}.raw_empty", n), guarded!(unsafe { match s.find_raw(st, st) { Ok(r) => opt(r), Err(()) => "OUTSIDE".into() } }));
                }
            }
        }
        Case::Iter { align, needles, hay, pattern } => {
            let p = Placed::new(hay, *align);
            let h = p.get();
            for imp in 0..bytes::N_IMPLS as u8 {
                if !bytes::has_iter(imp) {
                    continue;
                }
                let s = match bytes::make(imp, needles) {
                    Some(s) => s,
                    None => continue,
                };
                let n = bytes::IMPL_NAMES[imp as usize];
                // size_hint values are left out: they are judged by validity, not equality
                let pat: Vec<u8> = pattern.iter().map(|&x| if x == bytes::IT_HINT { bytes::IT_NEXT } else { x }).collect();
                put(
                    &format!("{}.iter", n),
                    guarded!({
                        let mut v = Vec::new();
                        s.iter_run(h, &pat, &mut v);
                        let mut t = String::from("[");
                        for (i, x) in v.iter().enumerate() {
                            if i > 0 {
                                t.push(',');
                            }
                            let _ = write!(t, "{}", x);
                        }
                        t.push(']');
                        t
                    }),
                );
            }
            let tr = bytes::TopRev::new(needles);
            let pat: Vec<u8> = pattern.iter().map(|&x| if x == bytes::IT_HINT || x == bytes::IT_COUNT { bytes::IT_NEXT } else { x }).collect();
            put(
                "toprev.iter",
                guarded!({
                    let mut v = Vec::new();
                    tr.iter_run(h, &pat, &mut v);
                    format!("{:?}", v).replace(' ', "")
                }),
            );
        }
        Case::Sub { align, needle, hay } => {
            let p = Placed::new(hay, *align);
            let h = p.get();
            let np = Placed::new(needle, (*align * 7 + 3) % 64);
            let n = np.get();
            match catch_unwind(AssertUnwindSafe(|| SubSet::new(n))) {
                Err(_) => put("construct", "P".into()),
                Ok(set) => {
                    let mut items: Vec<(u8, String)> = Vec::new();
                    let r = catch_unwind(AssertUnwindSafe(|| {
                        set.fwd_all(h, true, true, |imp, r| items.push((imp, opt(r))));
                        set.rev_all(h, true, true, |imp, r| items.push((imp, opt(r))));
                    }));
                    for (imp, v) in items.iter() {
                        put(&format!("s{}", imp), v.clone());
                    }
                    if r.is_err() {
                        put("search", "P".into());
                    }
                    let cap = h.len() + 8;
                    put("find_iter", guarded!({ let r = subs::drive(set.finder.find_iter(h), cap, 0, false); if r.runaway || r.unfused { "BAD".into() } else { seq(&r.items) } }));
                    put("find_iter.top", guarded!({ let r = subs::drive(memchr::memmem::find_iter(h, n), cap, 0, false); if r.runaway || r.unfused { "BAD".into() } else { seq(&r.items) } }));
                    put("rfind_iter", guarded!({ let r = subs::drive(set.rev.rfind_iter(h), cap, 0, false); if r.runaway || r.unfused { "BAD".into() } else { seq(&r.items) } }));
                    for (imp, pp) in set.pps.iter() {
                        if h.len() >= pp.min_haystack_len() && n.len() >= 2 {
                            // prefilter candidates are implementation specific (vector width): reported under a
                            // name the cross-configuration comparison ignores, judged against the oracle only
                            put(&format!("cand{}", imp), guarded!(opt(pp.find_prefilter(h))));
                        }
                    }
                }
            }
        }
        Case::Pair { align, needle, i1, i2, hay } => {
            let p = Placed::new(hay, *align);
            let h = p.get();
            match Pair::with_indices(needle, *i1, *i2) {
                None => put("pair", "N".into()),
                Some(pair) => {
                    for &imp in subs::PP_IMPLS.iter() {
                        let f = match catch_unwind(AssertUnwindSafe(|| subs::make_pp(imp, needle, Some(pair)))) {
                            Ok(Ok(Some(f))) => f,
                            Ok(_) => continue,
                            Err(_) => {
                                put(&format!("pp{}.new", imp), "P".into());
                                continue;
                            }
                        };
                        put(&format!("pp{}.min", imp), f.min_haystack_len().to_string());
                        // under Miri a too-short haystack is not handed to the vector finders: the documented panic
                        // is preceded by nothing, but a foreign-length needle would be out-of-domain pointer arithmetic
                        put(&format!("pp{}.find", imp), guarded!(match f.find(h, needle) { Some(r) => opt(r), None => "-".into() }));
                        put(&format!("pp{}.cand", imp), guarded!(opt(f.find_prefilter(h))));
                    }
                }
            }
        }
        #[cfg(any(feature = "std", feature = "alloc"))]
        Case::Hist(h) => {
            let mut st = crate::hist::HistStats::default();
            put(
                "hist",
                guarded!(match crate::hist::run_history(h, &mut st) {
                    Ok(()) => "OK".to_string(),
                    Err(e) => format!("ERR:{}", e.replace(' ', "_")),
                }),
            );
        }
        Case::Eq { ax, ay, x, y } => {
            let px = Placed::new(x, *ax);
            let py = Placed::new(y, *ay);
            let (x, y) = (px.get(), py.get());
            put("is_equal", guarded!(memchr::arch::all::is_equal(x, y).to_string()));
            put("is_prefix", guarded!(memchr::arch::all::is_prefix(x, y).to_string()));
            put("is_suffix", guarded!(memchr::arch::all::is_suffix(x, y).to_string()));
            if x.len() == y.len() {
                put("is_equal_raw", guarded!(unsafe { memchr::arch::all::is_equal_raw(x.as_ptr(), y.as_ptr(), x.len()) }.to_string()));
            }
        }
    }
    out
}
