//! `mvexec`: executes case files / thread programs in whatever configuration
//! it was built as (feature and flag variants, Miri targets, TSan).
//!
//!   mvexec cases <in> <out> [start]   one line of observations per case; `BEGIN i` is journaled first
//!   mvexec threads <file> [level]     run a thread program; exit 0 = agrees with the sequential oracle
//!   mvexec config

use std::io::Write;

fn main() {
    let args: Vec<String> = std::env::args().skip(1).collect();
    match args.get(0).map(|s| s.as_str()) {
        Some("config") => println!("{}", mvcore::cfgs::config_name()),
        Some("cases") => {
            let inp = std::fs::read_to_string(&args[1]).expect("read case file");
            let start: usize = args.get(3).and_then(|s| s.parse().ok()).unwrap_or(0);
            let mut out = std::fs::OpenOptions::new().create(true).append(true).open(&args[2]).expect("open output");
            if let Some(l) = args.get(4) {
                mvcore::cfgs::set_level(l.parse().unwrap_or(0));
            }
            std::panic::set_hook(Box::new(|_| {}));
            for (i, line) in inp.lines().enumerate() {
                if i < start {
                    continue;
                }
                let c = match mvcore::exec::Case::decode(line) {
                    Some(c) => c,
                    None => continue,
                };
                writeln!(out, "BEGIN {}", i).unwrap();
                out.flush().unwrap();
                let obs = mvcore::exec::exec_case(&c);
                writeln!(out, "DONE {} {}", i, obs).unwrap();
            }
            writeln!(out, "END").unwrap();
        }
        Some("threads") => {
            if let Some(l) = args.get(2) {
                mvcore::cfgs::set_level(l.parse().unwrap_or(0));
            }
            let text = std::fs::read_to_string(&args[1]).expect("read program");
            let p = mvcore::threads::Program::decode(&text).expect("parse program");
            match mvcore::threads::run(&p) {
                Ok(calls) => {
                    println!("OK {}", calls);
                }
                Err(e) => {
                    println!("MISMATCH {}", e);
                    std::process::exit(1);
                }
            }
        }
        _ => {
            eprintln!("usage: mvexec cases <in> <out> [start [level]] | threads <file> [level] | config");
            std::process::exit(2);
        }
    }
}
