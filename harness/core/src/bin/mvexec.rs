fn main(){}
