//! Table of byte-search implementations (C01, C02, C06, C07, C09).

use crate::cfgs::*;

/// Implementation ids.
pub const TOP: u8 = 0;
pub const ALL: u8 = 1;
pub const SSE2: u8 = 2;
pub const AVX2: u8 = 3;
pub const NEON: u8 = 4;
pub const SIMD128: u8 = 5;
pub const SMALL4: u8 = 6;
pub const SMALL8: u8 = 7;
pub const N_IMPLS: usize = 8;

pub const IMPL_NAMES: [&str; N_IMPLS] =
    ["top", "all", "sse2", "avx2", "neon", "simd128", "small4", "small8"];

/// The number of bytes in one vector of the implementation (1 = none).
pub fn vector_bytes(imp: u8, level: u8) -> usize {
    match imp {
        TOP => {
            if cfg_x86() {
                match level {
                    0 => 32,
                    1 => 16,
                    _ => core::mem::size_of::<usize>(),
                }
            } else if cfg_neon() || cfg_simd128() {
                16
            } else {
                core::mem::size_of::<usize>()
            }
        }
        ALL => core::mem::size_of::<usize>(),
        SSE2 | NEON | SIMD128 => 16,
        AVX2 => 32,
        SMALL4 => 4,
        SMALL8 => 8,
        _ => 1,
    }
}

/// Operations an iterator pattern byte can request.
pub const IT_NEXT: u8 = 0;
pub const IT_BACK: u8 = 1;
pub const IT_COUNT: u8 = 2; // count() of a clone
pub const IT_HINT: u8 = 3; // size_hint() -> two values

pub const NONE: i64 = -1;

#[inline]
pub fn enc(o: Option<usize>) -> i64 {
    match o {
        None => NONE,
        Some(i) => i as i64,
    }
}

pub trait ByteSearcher {
    fn find(&self, h: &[u8]) -> Option<usize>;
    fn rfind(&self, h: &[u8]) -> Option<usize>;
    /// `None` when the implementation has no count routine.
    fn count(&self, h: &[u8]) -> Option<usize>;
    /// `find_raw` on `[s, e)`, translated back to an offset from `s`.
    /// `Err(())` when the returned pointer is outside `[s, e)`.
    unsafe fn find_raw(
        &self,
        s: *const u8,
        e: *const u8,
    ) -> Result<Option<usize>, ()>;
    unsafe fn rfind_raw(
        &self,
        s: *const u8,
        e: *const u8,
    ) -> Result<Option<usize>, ()>;
    unsafe fn count_raw(&self, s: *const u8, e: *const u8) -> Option<usize>;
    /// Run the call pattern (IT_* bytes) on a fresh iterator over `h`,
    /// appending every observed value to `out`.
    fn iter_run(&self, h: &[u8], pattern: &[u8], out: &mut Vec<i64>);
    /// Explore the complete next/next_back call tree against the model.
    fn iter_tree(
        &self,
        h: &[u8],
        matches: &[usize],
        stats: &mut TreeStats,
    ) -> Result<(), String>;
}

#[derive(Clone, Debug)]
pub struct TreeStats {
    pub nodes: u64,
    pub calls: u64,
    pub counts: u64,
    /// judge the values returned by next()/next_back() (C06)
    pub check_values: bool,
    /// judge size_hint (C06)
    pub check_hint: bool,
    /// judge count() of clones taken at every node (C07)
    pub check_count: bool,
}

impl TreeStats {
    pub fn new(check_values: bool, check_hint: bool, check_count: bool) -> TreeStats {
        TreeStats { nodes: 0, calls: 0, counts: 0, check_values, check_hint, check_count }
    }
}

#[inline]
unsafe fn back(
    r: Option<*const u8>,
    s: *const u8,
    e: *const u8,
) -> Result<Option<usize>, ()> {
    match r {
        None => Ok(None),
        Some(p) => {
            if (p as usize) < (s as usize) || (p as usize) >= (e as usize) {
                Err(())
            } else {
                Ok(Some(p as usize - s as usize))
            }
        }
    }
}

pub fn run_iter<I>(it: I, pattern: &[u8], out: &mut Vec<i64>)
where
    I: Iterator<Item = usize> + DoubleEndedIterator + Clone,
{
    let mut it = it;
    for &p in pattern {
        match p {
            IT_NEXT => out.push(enc(it.next())),
            IT_BACK => out.push(enc(it.next_back())),
            IT_COUNT => out.push(it.clone().count() as i64),
            _ => {
                let (lo, hi) = it.size_hint();
                out.push(lo as i64);
                out.push(match hi {
                    None => i64::MAX,
                    Some(h) => h as i64,
                });
            }
        }
    }
}

/// Complete exploration of the next/next_back call tree. `lo..hi` is the
/// window of `matches` not yet yielded. At every node: size_hint must
/// bracket the remaining count, count() of a clone must equal it; after
/// exhaustion four more alternating calls must return None.
pub fn explore_tree<I>(
    it: &I,
    matches: &[usize],
    lo: usize,
    hi: usize,
    with_count: bool,
    stats: &mut TreeStats,
    path: &mut Vec<u8>,
) -> Result<(), String>
where
    I: Iterator<Item = usize> + DoubleEndedIterator + Clone,
{
    stats.nodes += 1;
    let remaining = hi - lo;
    if stats.check_hint {
        let (l, u) = it.size_hint();
        if l > remaining {
            return Err(format!(
                "size_hint lower {} > remaining {} after path {:?}",
                l, remaining, path
            ));
        }
        if let Some(u) = u {
            if u < remaining {
                return Err(format!(
                    "size_hint upper {} < remaining {} after path {:?}",
                    u, remaining, path
                ));
            }
        }
    }
    if with_count && stats.check_count {
        stats.counts += 1;
        let c = it.clone().count();
        if c != remaining {
            return Err(format!(
                "count() of partially consumed iterator = {} but {} matches remain after path {:?}",
                c, remaining, path
            ));
        }
    }
    if remaining == 0 {
        if !stats.check_values {
            return Ok(());
        }
        let mut c = it.clone();
        for k in 0..4 {
            stats.calls += 1;
            let r = if k % 2 == 0 { c.next() } else { c.next_back() };
            if r.is_some() {
                return Err(format!(
                    "exhausted iterator yielded {:?} after path {:?} + {} extra calls",
                    r, path, k
                ));
            }
        }
        let mut c = it.clone();
        for k in 0..4 {
            stats.calls += 1;
            let r = if k % 2 == 1 { c.next() } else { c.next_back() };
            if r.is_some() {
                return Err(format!(
                    "exhausted iterator yielded {:?} after path {:?} + {} extra calls (back first)",
                    r, path, k
                ));
            }
        }
        return Ok(());
    }
    // next()
    {
        let mut c = it.clone();
        stats.calls += 1;
        let r = c.next();
        if r != Some(matches[lo]) {
            if !stats.check_values {
                return Ok(());
            }
            return Err(format!(
                "next() = {:?}, expected Some({}) after path {:?}",
                r, matches[lo], path
            ));
        }
        path.push(IT_NEXT);
        explore_tree(&c, matches, lo + 1, hi, with_count, stats, path)?;
        path.pop();
    }
    {
        let mut c = it.clone();
        stats.calls += 1;
        let r = c.next_back();
        if r != Some(matches[hi - 1]) {
            if !stats.check_values {
                return Ok(());
            }
            return Err(format!(
                "next_back() = {:?}, expected Some({}) after path {:?}",
                r,
                matches[hi - 1],
                path
            ));
        }
        path.push(IT_BACK);
        explore_tree(&c, matches, lo, hi - 1, with_count, stats, path)?;
        path.pop();
    }
    Ok(())
}

/// State-lattice exploration for many matches: every (front, back) state is
/// reached by one canonical path (fronts first, then backs) and both
/// transitions are checked from it. O(k^2) states.
pub fn explore_lattice<I>(
    it: &I,
    matches: &[usize],
    with_count: bool,
    stats: &mut TreeStats,
) -> Result<(), String>
where
    I: Iterator<Item = usize> + DoubleEndedIterator + Clone,
{
    let k = matches.len();
    let mut front = it.clone();
    for f in 0..=k {
        // state (f, 0): walk backs
        let mut cur = front.clone();
        for b in 0..=(k - f) {
            stats.nodes += 1;
            let remaining = k - f - b;
            let (l, u) = cur.size_hint();
            if stats.check_hint
                && (l > remaining || u.map_or(false, |u| u < remaining))
            {
                return Err(format!(
                    "size_hint ({}, {:?}) does not bracket remaining {} after {} next / {} next_back",
                    l, u, remaining, f, b
                ));
            }
            if with_count && stats.check_count && (b % 7 == 0 || remaining < 3) {
                stats.counts += 1;
                let c = cur.clone().count();
                if c != remaining {
                    return Err(format!(
                        "count() = {} but {} remain after {} next / {} next_back",
                        c, remaining, f, b
                    ));
                }
            }
            // check next() from this state
            stats.calls += 1;
            let r = cur.clone().next();
            let exp = if remaining == 0 { None } else { Some(matches[f]) };
            if r != exp {
                if !stats.check_values {
                    return Ok(());
                }
                return Err(format!(
                    "next() = {:?}, expected {:?} after {} next / {} next_back",
                    r, exp, f, b
                ));
            }
            stats.calls += 1;
            let r = cur.next_back();
            let exp =
                if remaining == 0 { None } else { Some(matches[k - b - 1]) };
            if r != exp {
                if !stats.check_values {
                    return Ok(());
                }
                return Err(format!(
                    "next_back() = {:?}, expected {:?} after {} next / {} next_back",
                    r, exp, f, b
                ));
            }
        }
        if f < k {
            stats.calls += 1;
            let r = front.next();
            if r != Some(matches[f]) {
                if !stats.check_values {
                    return Ok(());
                }
                return Err(format!(
                    "next() = {:?}, expected Some({}) after {} next",
                    r, matches[f], f
                ));
            }
        }
    }
    Ok(())
}

fn tree_or_lattice<I>(
    it: I,
    matches: &[usize],
    with_count: bool,
    stats: &mut TreeStats,
) -> Result<(), String>
where
    I: Iterator<Item = usize> + DoubleEndedIterator + Clone,
{
    if matches.len() <= 10 {
        let mut path = Vec::new();
        explore_tree(&it, matches, 0, matches.len(), with_count, stats, &mut path)
    } else {
        explore_lattice(&it, matches, with_count, stats)
    }
}

// ---------------------------------------------------------------------------
// the top-level functions

pub struct Top {
    n: [u8; 3],
    arity: usize,
}

impl ByteSearcher for Top {
    fn find(&self, h: &[u8]) -> Option<usize> {
        match self.arity {
            1 => memchr::memchr(self.n[0], h),
            2 => memchr::memchr2(self.n[0], self.n[1], h),
            _ => memchr::memchr3(self.n[0], self.n[1], self.n[2], h),
        }
    }
    fn rfind(&self, h: &[u8]) -> Option<usize> {
        match self.arity {
            1 => memchr::memrchr(self.n[0], h),
            2 => memchr::memrchr2(self.n[0], self.n[1], h),
            _ => memchr::memrchr3(self.n[0], self.n[1], self.n[2], h),
        }
    }
    fn count(&self, h: &[u8]) -> Option<usize> {
        if self.arity == 1 {
            Some(memchr::memchr_iter(self.n[0], h).count())
        } else {
            None
        }
    }
    unsafe fn find_raw(
        &self,
        _s: *const u8,
        _e: *const u8,
    ) -> Result<Option<usize>, ()> {
        Err(())
    }
    unsafe fn rfind_raw(
        &self,
        _s: *const u8,
        _e: *const u8,
    ) -> Result<Option<usize>, ()> {
        Err(())
    }
    unsafe fn count_raw(&self, _s: *const u8, _e: *const u8) -> Option<usize> {
        None
    }
    fn iter_run(&self, h: &[u8], pattern: &[u8], out: &mut Vec<i64>) {
        match self.arity {
            1 => run_iter(memchr::memchr_iter(self.n[0], h), pattern, out),
            2 => run_iter(
                memchr::memchr2_iter(self.n[0], self.n[1], h),
                pattern,
                out,
            ),
            _ => run_iter(
                memchr::memchr3_iter(self.n[0], self.n[1], self.n[2], h),
                pattern,
                out,
            ),
        }
    }
    fn iter_tree(
        &self,
        h: &[u8],
        m: &[usize],
        st: &mut TreeStats,
    ) -> Result<(), String> {
        match self.arity {
            1 => tree_or_lattice(memchr::memchr_iter(self.n[0], h), m, true, st),
            2 => tree_or_lattice(
                memchr::memchr2_iter(self.n[0], self.n[1], h),
                m,
                false,
                st,
            ),
            _ => tree_or_lattice(
                memchr::memchr3_iter(self.n[0], self.n[1], self.n[2], h),
                m,
                false,
                st,
            ),
        }
    }
}

/// `memrchr*_iter`: the `.rev()` adaptor. Presented as a forward searcher
/// over the *reversed* match list: its next() is the inner next_back().
pub struct TopRev {
    n: [u8; 3],
    arity: usize,
}

impl TopRev {
    pub fn new(n: &[u8]) -> TopRev {
        let mut a = [0u8; 3];
        a[..n.len()].copy_from_slice(n);
        TopRev { n: a, arity: n.len() }
    }
    /// Run a call pattern on `memrchr{,2,3}_iter`.
    pub fn iter_run(&self, h: &[u8], pattern: &[u8], out: &mut Vec<i64>) {
        match self.arity {
            1 => run_iter(memchr::memrchr_iter(self.n[0], h), pattern, out),
            2 => run_iter(
                memchr::memrchr2_iter(self.n[0], self.n[1], h),
                pattern,
                out,
            ),
            _ => run_iter(
                memchr::memrchr3_iter(self.n[0], self.n[1], self.n[2], h),
                pattern,
                out,
            ),
        }
    }
    /// `rev_matches` must be the match list in descending order.
    pub fn iter_tree(
        &self,
        h: &[u8],
        rev_matches: &[usize],
        st: &mut TreeStats,
    ) -> Result<(), String> {
        match self.arity {
            1 => tree_or_lattice(
                memchr::memrchr_iter(self.n[0], h),
                rev_matches,
                false,
                st,
            ),
            2 => tree_or_lattice(
                memchr::memrchr2_iter(self.n[0], self.n[1], h),
                rev_matches,
                false,
                st,
            ),
            _ => tree_or_lattice(
                memchr::memrchr3_iter(self.n[0], self.n[1], self.n[2], h),
                rev_matches,
                false,
                st,
            ),
        }
    }
}

// ---------------------------------------------------------------------------
// One/Two/Three of a module

macro_rules! searcher_impl {
    ($name:ident, $one:ty, $two:ty, $three:ty, $has_iter:tt) => {
        pub enum $name {
            One($one),
            Two($two),
            Three($three),
        }

        impl ByteSearcher for $name {
            fn find(&self, h: &[u8]) -> Option<usize> {
                match self {
                    $name::One(s) => s.find(h),
                    $name::Two(s) => s.find(h),
                    $name::Three(s) => s.find(h),
                }
            }
            fn rfind(&self, h: &[u8]) -> Option<usize> {
                match self {
                    $name::One(s) => s.rfind(h),
                    $name::Two(s) => s.rfind(h),
                    $name::Three(s) => s.rfind(h),
                }
            }
            fn count(&self, h: &[u8]) -> Option<usize> {
                match self {
                    $name::One(s) => Some(s.count(h)),
                    _ => None,
                }
            }
            unsafe fn find_raw(
                &self,
                s0: *const u8,
                e0: *const u8,
            ) -> Result<Option<usize>, ()> {
                match self {
                    $name::One(s) => back(s.find_raw(s0, e0), s0, e0),
                    $name::Two(s) => back(s.find_raw(s0, e0), s0, e0),
                    $name::Three(s) => back(s.find_raw(s0, e0), s0, e0),
                }
            }
            unsafe fn rfind_raw(
                &self,
                s0: *const u8,
                e0: *const u8,
            ) -> Result<Option<usize>, ()> {
                match self {
                    $name::One(s) => back(s.rfind_raw(s0, e0), s0, e0),
                    $name::Two(s) => back(s.rfind_raw(s0, e0), s0, e0),
                    $name::Three(s) => back(s.rfind_raw(s0, e0), s0, e0),
                }
            }
            unsafe fn count_raw(
                &self,
                s0: *const u8,
                e0: *const u8,
            ) -> Option<usize> {
                match self {
                    $name::One(s) => Some(s.count_raw(s0, e0)),
                    _ => None,
                }
            }
            fn iter_run(&self, h: &[u8], pattern: &[u8], out: &mut Vec<i64>) {
                searcher_impl!(@iter $has_iter, self, $name, h, pattern, out);
            }
            fn iter_tree(
                &self,
                h: &[u8],
                m: &[usize],
                st: &mut TreeStats,
            ) -> Result<(), String> {
                searcher_impl!(@tree $has_iter, self, $name, h, m, st)
            }
        }
    };
    (@iter yes, $self:ident, $name:ident, $h:ident, $p:ident, $out:ident) => {
        match $self {
            $name::One(s) => run_iter(s.iter($h), $p, $out),
            $name::Two(s) => run_iter(s.iter($h), $p, $out),
            $name::Three(s) => run_iter(s.iter($h), $p, $out),
        }
    };
    (@iter no, $self:ident, $name:ident, $h:ident, $p:ident, $out:ident) => {
        let _ = ($h, $p, $out);
    };
    (@tree yes, $self:ident, $name:ident, $h:ident, $m:ident, $st:ident) => {
        match $self {
            $name::One(s) => tree_or_lattice(s.iter($h), $m, true, $st),
            $name::Two(s) => tree_or_lattice(s.iter($h), $m, false, $st),
            $name::Three(s) => tree_or_lattice(s.iter($h), $m, false, $st),
        }
    };
    (@tree no, $self:ident, $name:ident, $h:ident, $m:ident, $st:ident) => {{
        let _ = ($h, $m, $st);
        Ok(())
    }};
}

searcher_impl!(
    AllS,
    memchr::arch::all::memchr::One,
    memchr::arch::all::memchr::Two,
    memchr::arch::all::memchr::Three,
    yes
);

#[cfg(all(target_arch = "x86_64", not(memchr_emu)))]
searcher_impl!(
    Sse2S,
    memchr::arch::x86_64::sse2::memchr::One,
    memchr::arch::x86_64::sse2::memchr::Two,
    memchr::arch::x86_64::sse2::memchr::Three,
    yes
);

#[cfg(all(target_arch = "x86_64", not(memchr_emu)))]
searcher_impl!(
    Avx2S,
    memchr::arch::x86_64::avx2::memchr::One,
    memchr::arch::x86_64::avx2::memchr::Two,
    memchr::arch::x86_64::avx2::memchr::Three,
    yes
);

#[cfg(any(
    all(target_arch = "aarch64", not(memchr_emu)),
    memchr_emu_arch = "aarch64"
))]
searcher_impl!(
    NeonS,
    memchr::arch::aarch64::neon::memchr::One,
    memchr::arch::aarch64::neon::memchr::Two,
    memchr::arch::aarch64::neon::memchr::Three,
    yes
);

#[cfg(all(memchr_emu_arch = "wasm32", memchr_emu_feature = "simd128"))]
searcher_impl!(
    SimdS,
    memchr::arch::wasm32::simd128::memchr::One,
    memchr::arch::wasm32::simd128::memchr::Two,
    memchr::arch::wasm32::simd128::memchr::Three,
    yes
);

#[cfg(all(memchr_verif, target_endian = "little"))]
searcher_impl!(
    Small4S,
    memchr::verif::small::One<4>,
    memchr::verif::small::Two<4>,
    memchr::verif::small::Three<4>,
    no
);

#[cfg(all(memchr_verif, target_endian = "little"))]
searcher_impl!(
    Small8S,
    memchr::verif::small::One<8>,
    memchr::verif::small::Two<8>,
    memchr::verif::small::Three<8>,
    no
);

/// Build the searcher `imp` for the needle bytes `n` (1..=3 of them).
/// `None` when the implementation does not exist in this build or reports
/// itself unavailable.
pub fn make(imp: u8, n: &[u8]) -> Option<Box<dyn ByteSearcher>> {
    let arity = n.len();
    assert!((1..=3).contains(&arity));
    let mut a = [0u8; 3];
    a[..arity].copy_from_slice(n);
    match imp {
        TOP => Some(Box::new(Top { n: a, arity })),
        ALL => {
            use memchr::arch::all::memchr::*;
            Some(Box::new(match arity {
                1 => AllS::One(One::new(a[0])),
                2 => AllS::Two(Two::new(a[0], a[1])),
                _ => AllS::Three(Three::new(a[0], a[1], a[2])),
            }))
        }
        #[cfg(all(target_arch = "x86_64", not(memchr_emu)))]
        SSE2 => {
            use memchr::arch::x86_64::sse2::memchr::*;
            Some(Box::new(match arity {
                1 => Sse2S::One(One::new(a[0])?),
                2 => Sse2S::Two(Two::new(a[0], a[1])?),
                _ => Sse2S::Three(Three::new(a[0], a[1], a[2])?),
            }))
        }
        #[cfg(all(target_arch = "x86_64", not(memchr_emu)))]
        AVX2 => {
            use memchr::arch::x86_64::avx2::memchr::*;
            Some(Box::new(match arity {
                1 => Avx2S::One(One::new(a[0])?),
                2 => Avx2S::Two(Two::new(a[0], a[1])?),
                _ => Avx2S::Three(Three::new(a[0], a[1], a[2])?),
            }))
        }
        #[cfg(any(
            all(target_arch = "aarch64", not(memchr_emu)),
            memchr_emu_arch = "aarch64"
        ))]
        NEON => {
            use memchr::arch::aarch64::neon::memchr::*;
            Some(Box::new(match arity {
                1 => NeonS::One(One::new(a[0])?),
                2 => NeonS::Two(Two::new(a[0], a[1])?),
                _ => NeonS::Three(Three::new(a[0], a[1], a[2])?),
            }))
        }
        #[cfg(all(memchr_emu_arch = "wasm32", memchr_emu_feature = "simd128"))]
        SIMD128 => {
            use memchr::arch::wasm32::simd128::memchr::*;
            Some(Box::new(match arity {
                1 => SimdS::One(One::new(a[0])?),
                2 => SimdS::Two(Two::new(a[0], a[1])?),
                _ => SimdS::Three(Three::new(a[0], a[1], a[2])?),
            }))
        }
        #[cfg(all(memchr_verif, target_endian = "little"))]
        SMALL4 => {
            use memchr::verif::small::*;
            Some(Box::new(match arity {
                1 => Small4S::One(One::<4>::new(a[0])),
                2 => Small4S::Two(Two::<4>::new(a[0], a[1])),
                _ => Small4S::Three(Three::<4>::new(a[0], a[1], a[2])),
            }))
        }
        #[cfg(all(memchr_verif, target_endian = "little"))]
        SMALL8 => {
            use memchr::verif::small::*;
            Some(Box::new(match arity {
                1 => Small8S::One(One::<8>::new(a[0])),
                2 => Small8S::Two(Two::<8>::new(a[0], a[1])),
                _ => Small8S::Three(Three::<8>::new(a[0], a[1], a[2])),
            }))
        }
        _ => None,
    }
}

/// Does this implementation offer raw-pointer entry points?
pub fn has_raw(imp: u8) -> bool {
    imp != TOP
}

/// Does this implementation offer iterators?
pub fn has_iter(imp: u8) -> bool {
    imp != SMALL4 && imp != SMALL8
}
