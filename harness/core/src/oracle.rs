//! Naive reference implementations. Nothing in this file calls the crate
//! under test.

#[inline]
pub fn is_match(needles: &[u8], b: u8) -> bool {
    let mut i = 0;
    while i < needles.len() {
        if needles[i] == b {
            return true;
        }
        i += 1;
    }
    false
}

pub fn naive_pos(needles: &[u8], hay: &[u8]) -> Option<usize> {
    let mut i = 0;
    while i < hay.len() {
        if is_match(needles, hay[i]) {
            return Some(i);
        }
        i += 1;
    }
    None
}

pub fn naive_rpos(needles: &[u8], hay: &[u8]) -> Option<usize> {
    let mut i = hay.len();
    while i > 0 {
        i -= 1;
        if is_match(needles, hay[i]) {
            return Some(i);
        }
    }
    None
}

pub fn naive_count(needles: &[u8], hay: &[u8]) -> usize {
    let mut c = 0;
    let mut i = 0;
    while i < hay.len() {
        if is_match(needles, hay[i]) {
            c += 1;
        }
        i += 1;
    }
    c
}

pub fn naive_positions(needles: &[u8], hay: &[u8]) -> Vec<usize> {
    let mut v = Vec::new();
    for (i, &b) in hay.iter().enumerate() {
        if is_match(needles, b) {
            v.push(i);
        }
    }
    v
}

#[inline]
fn window_eq(hay: &[u8], at: usize, needle: &[u8]) -> bool {
    let mut j = 0;
    while j < needle.len() {
        if hay[at + j] != needle[j] {
            return false;
        }
        j += 1;
    }
    true
}

pub fn naive_find(hay: &[u8], needle: &[u8]) -> Option<usize> {
    if needle.len() > hay.len() {
        return None;
    }
    let mut i = 0;
    while i + needle.len() <= hay.len() {
        if window_eq(hay, i, needle) {
            return Some(i);
        }
        i += 1;
    }
    None
}

pub fn naive_rfind(hay: &[u8], needle: &[u8]) -> Option<usize> {
    if needle.len() > hay.len() {
        return None;
    }
    let mut i = hay.len() - needle.len() + 1;
    while i > 0 {
        i -= 1;
        if window_eq(hay, i, needle) {
            return Some(i);
        }
    }
    None
}

/// All (possibly overlapping) occurrences.
pub fn naive_all(hay: &[u8], needle: &[u8]) -> Vec<usize> {
    let mut v = Vec::new();
    if needle.len() > hay.len() {
        return v;
    }
    for i in 0..=(hay.len() - needle.len()) {
        if window_eq(hay, i, needle) {
            v.push(i);
        }
    }
    v
}

/// The literal statement of C08, forward: repeatedly take the leftmost
/// occurrence at or after `pos`, resume at `i + max(len, 1)`.
pub fn greedy_fwd(hay: &[u8], needle: &[u8]) -> Vec<usize> {
    let mut out = Vec::new();
    let mut pos = 0usize;
    while pos <= hay.len() {
        match naive_find(&hay[pos..], needle) {
            None => break,
            Some(i) => {
                out.push(pos + i);
                pos = pos + i + core::cmp::max(needle.len(), 1);
            }
        }
    }
    out
}

/// Mirror image: repeatedly take the rightmost occurrence that ends at or
/// before `end`, resume with `end = i` (for the empty needle `end = i - 1`,
/// stopping after offset 0).
pub fn greedy_rev(hay: &[u8], needle: &[u8]) -> Vec<usize> {
    let mut out = Vec::new();
    let mut end = hay.len() as isize;
    while end >= 0 {
        match naive_rfind(&hay[..end as usize], needle) {
            None => break,
            Some(i) => {
                out.push(i);
                if needle.is_empty() {
                    end = i as isize - 1;
                } else {
                    end = i as isize;
                }
            }
        }
    }
    out
}

/// Smallest period of a word (used for classification only).
pub fn period(w: &[u8]) -> usize {
    if w.is_empty() {
        return 0;
    }
    'p: for p in 1..w.len() {
        for i in p..w.len() {
            if w[i] != w[i - p] {
                continue 'p;
            }
        }
        return p;
    }
    w.len()
}

/// FNV-1a, for distinct-case counting.
pub fn fnv(parts: &[&[u8]]) -> u64 {
    let mut h: u64 = 0xcbf29ce484222325;
    for p in parts {
        for &b in p.iter() {
            h ^= b as u64;
            h = h.wrapping_mul(0x100000001b3);
        }
        h ^= 0xff;
        h = h.wrapping_mul(0x100000001b3);
        h ^= p.len() as u64;
        h = h.wrapping_mul(0x100000001b3);
    }
    h
}
