//! Table of substring-search implementations (C03, C04, C08, C10-C12, C16).

use memchr::arch::all::packedpair::{HeuristicFrequencyRank, Pair};
use memchr::arch::all::{rabinkarp, twoway};
use memchr::memmem::{self, Finder, FinderBuilder, FinderRev, Prefilter};

// forward implementations
pub const S_ONESHOT: u8 = 0;
pub const S_FINDER: u8 = 1;
pub const S_NOPRE: u8 = 2;
pub const S_ITER_FIRST: u8 = 3;
pub const S_TWOWAY: u8 = 4;
pub const S_RK: u8 = 5;
pub const S_SHIFTOR: u8 = 6;
pub const S_PP_SSE2: u8 = 7;
pub const S_PP_AVX2: u8 = 8;
pub const S_PP_NEON: u8 = 9;
pub const S_PP_SIMD: u8 = 10;
pub const S_PP_SMALL4: u8 = 11;
pub const S_PP_SMALL8: u8 = 12;
pub const S_PP_ALL: u8 = 13; // portable prefilter only
                             // reverse implementations
pub const R_ONESHOT: u8 = 16;
pub const R_FINDER: u8 = 17;
pub const R_ITER_FIRST: u8 = 18;
pub const R_TWOWAY: u8 = 19;
pub const R_RK: u8 = 20;

pub fn sub_name(imp: u8) -> &'static str {
    match imp {
        S_ONESHOT => "memmem::find",
        S_FINDER => "Finder::find",
        S_NOPRE => "FinderBuilder(Prefilter::None)::find",
        S_ITER_FIRST => "Finder::find_iter().next()",
        S_TWOWAY => "twoway::Finder::find",
        S_RK => "rabinkarp::Finder::find",
        S_SHIFTOR => "shiftor::Finder::find",
        S_PP_SSE2 => "sse2::packedpair::Finder",
        S_PP_AVX2 => "avx2::packedpair::Finder",
        S_PP_NEON => "neon::packedpair::Finder",
        S_PP_SIMD => "simd128::packedpair::Finder",
        S_PP_SMALL4 => "generic packedpair on 4-lane checked vector",
        S_PP_SMALL8 => "generic packedpair on 8-lane checked vector",
        S_PP_ALL => "all::packedpair::Finder",
        R_ONESHOT => "memmem::rfind",
        R_FINDER => "FinderRev::rfind",
        R_ITER_FIRST => "FinderRev::rfind_iter().next()",
        R_TWOWAY => "twoway::FinderRev::rfind",
        R_RK => "rabinkarp::FinderRev::rfind",
        _ => "?",
    }
}

pub const PP_IMPLS: [u8; 7] = [
    S_PP_SSE2,
    S_PP_AVX2,
    S_PP_NEON,
    S_PP_SIMD,
    S_PP_SMALL4,
    S_PP_SMALL8,
    S_PP_ALL,
];

pub fn pp_vector_bytes(imp: u8) -> usize {
    match imp {
        S_PP_AVX2 => 32,
        S_PP_SMALL4 => 4,
        S_PP_SMALL8 => 8,
        S_PP_ALL => 0,
        _ => 16,
    }
}

pub trait PackedPair {
    /// 0 for the portable prefilter, which has no minimum.
    fn min_haystack_len(&self) -> usize;
    /// `None`: the implementation has no `find`.
    fn find(&self, h: &[u8], n: &[u8]) -> Option<Option<usize>>;
    fn find_prefilter(&self, h: &[u8]) -> Option<usize>;
    fn pair(&self) -> (u8, u8);
}

macro_rules! pp_impl {
    ($ty:ty) => {
        impl PackedPair for $ty {
            fn min_haystack_len(&self) -> usize {
                <$ty>::min_haystack_len(self)
            }
            fn find(&self, h: &[u8], n: &[u8]) -> Option<Option<usize>> {
                Some(<$ty>::find(self, h, n))
            }
            fn find_prefilter(&self, h: &[u8]) -> Option<usize> {
                <$ty>::find_prefilter(self, h)
            }
            fn pair(&self) -> (u8, u8) {
                let p = <$ty>::pair(self);
                (p.index1(), p.index2())
            }
        }
    };
}

#[cfg(all(target_arch = "x86_64", not(memchr_emu)))]
pp_impl!(memchr::arch::x86_64::sse2::packedpair::Finder);
#[cfg(all(target_arch = "x86_64", not(memchr_emu)))]
pp_impl!(memchr::arch::x86_64::avx2::packedpair::Finder);
#[cfg(any(
    all(target_arch = "aarch64", not(memchr_emu)),
    memchr_emu_arch = "aarch64"
))]
pp_impl!(memchr::arch::aarch64::neon::packedpair::Finder);
#[cfg(all(memchr_emu_arch = "wasm32", memchr_emu_feature = "simd128"))]
pp_impl!(memchr::arch::wasm32::simd128::packedpair::Finder);
#[cfg(all(memchr_verif, target_endian = "little"))]
pp_impl!(memchr::verif::small::Pair<4>);
#[cfg(all(memchr_verif, target_endian = "little"))]
pp_impl!(memchr::verif::small::Pair<8>);

impl PackedPair for memchr::arch::all::packedpair::Finder {
    fn min_haystack_len(&self) -> usize {
        0
    }
    fn find(&self, _h: &[u8], _n: &[u8]) -> Option<Option<usize>> {
        None
    }
    fn find_prefilter(&self, h: &[u8]) -> Option<usize> {
        memchr::arch::all::packedpair::Finder::find_prefilter(self, h)
    }
    fn pair(&self) -> (u8, u8) {
        let p = memchr::arch::all::packedpair::Finder::pair(self);
        (p.index1(), p.index2())
    }
}

/// Build packed pair finder `imp` with the default pair (`pair == None`) or
/// with the given one. `Err(())`: the implementation does not exist in this
/// build; `Ok(None)`: the constructor returned `None`.
pub fn make_pp(
    imp: u8,
    needle: &[u8],
    pair: Option<Pair>,
) -> Result<Option<Box<dyn PackedPair>>, ()> {
    macro_rules! mk {
        ($ty:ty) => {{
            let f = match pair {
                None => <$ty>::new(needle),
                Some(p) => <$ty>::with_pair(needle, p),
            };
            Ok(f.map(|f| Box::new(f) as Box<dyn PackedPair>))
        }};
    }
    match imp {
        #[cfg(all(target_arch = "x86_64", not(memchr_emu)))]
        S_PP_SSE2 => mk!(memchr::arch::x86_64::sse2::packedpair::Finder),
        #[cfg(all(target_arch = "x86_64", not(memchr_emu)))]
        S_PP_AVX2 => mk!(memchr::arch::x86_64::avx2::packedpair::Finder),
        #[cfg(any(
            all(target_arch = "aarch64", not(memchr_emu)),
            memchr_emu_arch = "aarch64"
        ))]
        S_PP_NEON => mk!(memchr::arch::aarch64::neon::packedpair::Finder),
        #[cfg(all(
            memchr_emu_arch = "wasm32",
            memchr_emu_feature = "simd128"
        ))]
        S_PP_SIMD => mk!(memchr::arch::wasm32::simd128::packedpair::Finder),
        #[cfg(all(memchr_verif, target_endian = "little"))]
        S_PP_SMALL4 => mk!(memchr::verif::small::Pair<4>),
        #[cfg(all(memchr_verif, target_endian = "little"))]
        S_PP_SMALL8 => mk!(memchr::verif::small::Pair<8>),
        S_PP_ALL => mk!(memchr::arch::all::packedpair::Finder),
        _ => Err(()),
    }
}

/// Is a vector packed pair finder of this kind expected to be constructible
/// in this build at this forced CPU level?
pub fn pp_expected_available(imp: u8, level: u8) -> bool {
    match imp {
        S_PP_SSE2 => level <= 1,
        S_PP_AVX2 => level == 0 && crate::cfgs::host_has_avx2(),
        _ => true,
    }
}

// ---------------------------------------------------------------------------
// rankers

pub const RK_DEFAULT: u8 = 0;
pub const RK_CONST0: u8 = 1;
pub const RK_CONST255: u8 = 2;
pub const RK_IDENTITY: u8 = 3;
pub const RK_REVERSED: u8 = 4;
pub const RK_TABLE: u8 = 5;
pub const RK_NEEDLE_COMMON: u8 = 6;
pub const RK_STATEFUL: u8 = 7;
pub const N_RANKERS: u8 = 8;

pub const RANKER_NAMES: [&str; 8] = [
    "default",
    "const0",
    "const255",
    "identity",
    "reversed",
    "table",
    "needle_common",
    "stateful",
];

/// A frequency ranker. `Stateful` answers depend on how often it has been
/// asked (an adversarial, non-functional ranker).
pub struct Ranker {
    pub kind: u8,
    pub table: [u8; 256],
    pub calls: core::cell::Cell<u32>,
}

impl Ranker {
    /// `seed_table` is only used by `RK_TABLE`; `needle` by
    /// `RK_NEEDLE_COMMON`.
    pub fn new(kind: u8, seed_table: &[u8; 256], needle: &[u8]) -> Ranker {
        let mut table = [0u8; 256];
        match kind {
            RK_CONST0 => {}
            RK_CONST255 => table = [255; 256],
            RK_IDENTITY => {
                for i in 0..256 {
                    table[i] = i as u8;
                }
            }
            RK_REVERSED => {
                for i in 0..256 {
                    table[i] = 255 - i as u8;
                }
            }
            RK_TABLE => table = *seed_table,
            RK_NEEDLE_COMMON => {
                for i in 0..256 {
                    table[i] = (i as u8) / 2;
                }
                for &b in needle {
                    table[b as usize] = 255;
                }
            }
            RK_STATEFUL => table = *seed_table,
            _ => {}
        }
        Ranker { kind, table, calls: core::cell::Cell::new(0) }
    }
}

impl HeuristicFrequencyRank for Ranker {
    fn rank(&self, byte: u8) -> u8 {
        match self.kind {
            RK_STATEFUL => {
                let c = self.calls.get();
                self.calls.set(c.wrapping_add(1));
                self.table[(byte as usize + c as usize * 7) % 256]
                    .wrapping_add((c as u8).wrapping_mul(31))
            }
            _ => self.table[byte as usize],
        }
    }
}

pub fn build_with_ranker<'n>(
    ranker: &Ranker,
    prefilter_none: bool,
    needle: &'n [u8],
) -> Finder<'n> {
    let mut b = FinderBuilder::new();
    if prefilter_none {
        b.prefilter(Prefilter::None);
    }
    if ranker.kind == RK_DEFAULT {
        // The crate's default ranker is not nameable from outside.
        b.build_forward(needle)
    } else {
        b.build_forward_with_ranker(ranker, needle)
    }
}

pub fn pair_with_ranker(ranker: &Ranker, needle: &[u8]) -> Option<Pair> {
    if ranker.kind == RK_DEFAULT {
        Pair::new(needle)
    } else {
        Pair::with_ranker(needle, ranker)
    }
}

// ---------------------------------------------------------------------------
// everything that can search for one needle

pub struct SubSet<'n> {
    pub needle: &'n [u8],
    pub finder: Finder<'n>,
    pub nopre: Finder<'n>,
    pub rev: FinderRev<'n>,
    pub tw: twoway::Finder,
    pub twr: twoway::FinderRev,
    pub rk: rabinkarp::Finder,
    pub rkr: rabinkarp::FinderRev,
    #[cfg(any(feature = "std", feature = "alloc"))]
    pub so: Option<memchr::arch::all::shiftor::Finder>,
    pub pps: Vec<(u8, Box<dyn PackedPair>)>,
}

impl<'n> SubSet<'n> {
    pub fn new(needle: &'n [u8]) -> SubSet<'n> {
        let mut pps = Vec::new();
        for &imp in PP_IMPLS.iter() {
            if imp == S_PP_ALL {
                continue;
            }
            if let Ok(Some(f)) = make_pp(imp, needle, None) {
                pps.push((imp, f));
            }
        }
        SubSet {
            needle,
            finder: Finder::new(needle),
            nopre: FinderBuilder::new()
                .prefilter(Prefilter::None)
                .build_forward(needle),
            rev: FinderRev::new(needle),
            tw: twoway::Finder::new(needle),
            twr: twoway::FinderRev::new(needle),
            rk: rabinkarp::Finder::new(needle),
            rkr: rabinkarp::FinderRev::new(needle),
            #[cfg(any(feature = "std", feature = "alloc"))]
            so: memchr::arch::all::shiftor::Finder::new(needle),
            pps,
        }
    }

    /// Call `f(impl, result)` for every forward implementation whose
    /// documented domain contains (needle, hay). `blocks`: include the
    /// low-level building blocks (C12).
    pub fn fwd_all(
        &self,
        hay: &[u8],
        top: bool,
        blocks: bool,
        mut f: impl FnMut(u8, Option<usize>),
    ) {
        let n = self.needle;
        if top {
            f(S_ONESHOT, memmem::find(hay, n));
            f(S_FINDER, self.finder.find(hay));
            f(S_NOPRE, self.nopre.find(hay));
            f(S_ITER_FIRST, self.finder.find_iter(hay).next());
        }
        if blocks {
            f(S_TWOWAY, self.tw.find(hay, n));
            f(S_RK, self.rk.find(hay, n));
            #[cfg(any(feature = "std", feature = "alloc"))]
            if let Some(so) = self.so.as_ref() {
                f(S_SHIFTOR, so.find(hay));
            }
            for (imp, pp) in self.pps.iter() {
                if hay.len() >= pp.min_haystack_len() {
                    if let Some(r) = pp.find(hay, n) {
                        f(*imp, r);
                    }
                }
            }
        }
    }

    pub fn rev_all(
        &self,
        hay: &[u8],
        top: bool,
        blocks: bool,
        mut f: impl FnMut(u8, Option<usize>),
    ) {
        let n = self.needle;
        if top {
            f(R_ONESHOT, memmem::rfind(hay, n));
            f(R_FINDER, self.rev.rfind(hay));
            f(R_ITER_FIRST, self.rev.rfind_iter(hay).next());
        }
        if blocks {
            f(R_TWOWAY, self.twr.rfind(hay, n));
            f(R_RK, self.rkr.rfind(hay, n));
        }
    }
}

/// Result of stepping a substring iterator to exhaustion.
pub struct IterRun {
    pub items: Vec<usize>,
    /// First step at which size_hint failed to bracket the remaining count:
    /// (step, lo, hi, remaining).
    pub hint_fail: Option<(usize, usize, Option<usize>, usize)>,
    /// An item was yielded after the first `None`.
    pub unfused: bool,
    /// Did not terminate within the cap.
    pub runaway: bool,
}

/// Drives `it` to the end (at most `cap` items), then 3 more calls.
/// `expected_len` is the length of the model sequence, used to evaluate
/// `size_hint` at every step (when `check_hint`).
pub fn drive<I: Iterator<Item = usize>>(
    mut it: I,
    cap: usize,
    expected_len: usize,
    check_hint: bool,
) -> IterRun {
    let mut r = IterRun {
        items: Vec::new(),
        hint_fail: None,
        unfused: false,
        runaway: false,
    };
    loop {
        if check_hint && r.hint_fail.is_none() {
            let (lo, hi) = it.size_hint();
            let remaining = expected_len.saturating_sub(r.items.len());
            // Only meaningful while the yielded prefix can still be the
            // model's prefix; the caller compares the items separately.
            if r.items.len() <= expected_len
                && (lo > remaining || hi.map_or(false, |h| h < remaining))
            {
                r.hint_fail = Some((r.items.len(), lo, hi, remaining));
            }
        }
        match it.next() {
            None => break,
            Some(i) => {
                r.items.push(i);
                if r.items.len() > cap {
                    r.runaway = true;
                    return r;
                }
            }
        }
    }
    for _ in 0..3 {
        if it.next().is_some() {
            r.unfused = true;
        }
    }
    r
}
