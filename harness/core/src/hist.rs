//! Finder/iterator histories (C16): the op model, its interpreter against the
//! crate and the naive model, and a text codec so that `mvexec` can run a
//! history under Miri (a dangling needle borrow is then a reported
//! use-after-free rather than a lucky read).

use crate::exec::{hex, unhex};
use memchr::memmem::{FindIter, FindRevIter, Finder, FinderRev};

#[derive(Clone, Debug, PartialEq)]
pub enum Op {
    Find(u8, u8),
    Rfind(u8, u8),
    StartIter(u8, u8),
    StartRevIter(u8, u8),
    Step(u8),
    StepRev(u8),
    CloneFinder(u8),
    AsRef(u8),
    IntoOwned(u8),
    CloneIter(u8),
    IntoOwnedIter(u8),
    CloneRevIter(u8),
    IntoOwnedRevIter(u8),
    CheckNeedle(u8),
    /// Searches through ONE reusable buffer: haystack `hi` (cut or padded to the buffer's fixed
    /// length) is copied into the buffer, which is then searched: same address, same length,
    /// different contents from one search to the next (the usual read-into-a-buffer loop).
    /// (finder, haystack, 0 = find / 1 = rfind / 2 = find_iter / 3 = rfind_iter)
    Buf(u8, u8, u8),
    /// clone an OWNED finder / reverse finder / iterator, drop the source and keep using the clone
    CloneDrop(u8),
}

#[derive(Clone, Debug, PartialEq)]
pub struct History {
    pub needle: Vec<u8>,
    pub hays: Vec<Vec<u8>>,
    pub before: Vec<Op>,
    pub after: Vec<Op>,
}

struct IterSlot<I> {
    it: I,
    hay: usize,
    pos: usize,
}

#[derive(Default)]
pub struct HistStats {
    pub clone_drops: u64,
    pub buf_searches: u64,
    pub searches: u64,
    pub steps: u64,
    pub clones_of_partial: u64,
    pub owned_after_drop: u64,
}

/// Interpret a history against the crate and the model. The original needle
/// buffer is overwritten with garbage and freed between `before` and `after`.
pub fn run_history(h: &History, st: &mut HistStats) -> Result<(), String> {
    let needle_model: Vec<u8> = h.needle.clone();
    let hays = &h.hays;
    // The reference is the crate's own answer "in isolation": a fresh finder (resp. a fresh,
    // uninterrupted iterator) per haystack. C16 is about independence from history and about
    // clones / borrowed / owned forms behaving like the original - not about the answers being
    // the right ones (that is C03/C04/C08).
    let cap = |x: &Vec<u8>| x.len() + 2;
    let fwd: Vec<Vec<usize>> = hays.iter().map(|x| Finder::new(&needle_model).find_iter(x).take(cap(x)).collect()).collect();
    let rev: Vec<Vec<usize>> = hays.iter().map(|x| FinderRev::new(&needle_model).rfind_iter(x).take(cap(x)).collect()).collect();
    let efind: Vec<Option<usize>> = hays.iter().map(|x| Finder::new(&needle_model).find(x)).collect();
    let erfind: Vec<Option<usize>> = hays.iter().map(|x| FinderRev::new(&needle_model).rfind(x)).collect();

    // the reusable buffer: fixed length W, contents = haystack cut / padded to W
    let w = hays.iter().map(|x| x.len()).find(|l| *l > 0).unwrap_or(0);
    let windowed: Vec<Vec<u8>> = hays
        .iter()
        .map(|x| {
            let mut v: Vec<u8> = x.iter().copied().take(w).collect();
            let pad = x.last().copied().unwrap_or(0x7E);
            v.resize(w, pad);
            v
        })
        .collect();
    let bfwd: Vec<Vec<usize>> = windowed.iter().map(|x| Finder::new(&needle_model).find_iter(x).take(cap(x)).collect()).collect();
    let brev: Vec<Vec<usize>> = windowed.iter().map(|x| FinderRev::new(&needle_model).rfind_iter(x).take(cap(x)).collect()).collect();
    let befind: Vec<Option<usize>> = windowed.iter().map(|x| Finder::new(&needle_model).find(x)).collect();
    let berfind: Vec<Option<usize>> = windowed.iter().map(|x| FinderRev::new(&needle_model).rfind(x)).collect();
    let mut buf: Vec<u8> = vec![0u8; w];

    let mut owned_f: Vec<Finder<'static>> = Vec::new();
    let mut owned_r: Vec<FinderRev<'static>> = Vec::new();
    let mut owned_it: Vec<IterSlot<FindIter<'_, 'static>>> = Vec::new();
    let mut owned_rit: Vec<IterSlot<FindRevIter<'_, 'static>>> = Vec::new();

    macro_rules! pick {
        ($v:expr, $i:expr) => {
            if $v.is_empty() { None } else { Some(($i as usize) % $v.len()) }
        };
    }
    macro_rules! search {
        ($f:expr, $hi:expr, $what:expr, $k:expr) => {{
            st.searches += 1;
            let r = $f.find(&hays[$hi]);
            if r != efind[$hi] {
                return Err(format!("{} #{}: find(haystack {}) = {:?}, but a fresh finder returns {:?}", $what, $k, $hi, r, efind[$hi]));
            }
        }};
    }
    macro_rules! rsearch {
        ($f:expr, $hi:expr, $what:expr, $k:expr) => {{
            st.searches += 1;
            let r = $f.rfind(&hays[$hi]);
            if r != erfind[$hi] {
                return Err(format!("{} #{}: rfind(haystack {}) = {:?}, but a fresh finder returns {:?}", $what, $k, $hi, r, erfind[$hi]));
            }
        }};
    }
    macro_rules! bufsearch {
        ($f:expr, $r:expr, $hi:expr, $mode:expr, $what:expr, $k:expr) => {{
            st.searches += 1;
            st.buf_searches += 1;
            buf.copy_from_slice(&windowed[$hi]);
            let b: &[u8] = std::hint::black_box(&buf[..]);
            let (got, exp): (Vec<i64>, Vec<i64>) = match $mode % 4 {
                0 => (vec![$f.find(b).map_or(-1, |x| x as i64)], vec![befind[$hi].map_or(-1, |x| x as i64)]),
                1 => (vec![$r.rfind(b).map_or(-1, |x| x as i64)], vec![berfind[$hi].map_or(-1, |x| x as i64)]),
                2 => ($f.find_iter(b).take(w + 2).map(|x| x as i64).collect(), bfwd[$hi].iter().map(|x| *x as i64).collect()),
                _ => ($r.rfind_iter(b).take(w + 2).map(|x| x as i64).collect(), brev[$hi].iter().map(|x| *x as i64).collect()),
            };
            if got != exp {
                let name = ["find", "rfind", "find_iter", "rfind_iter"][($mode % 4) as usize];
                return Err(format!("{} #{}: {} over the reused buffer holding haystack {} (cut/padded to {} bytes) = {:?}, but a fresh finder returns {:?}", $what, $k, name, $hi, w, got, exp));
            }
        }};
    }

    macro_rules! clone_drop {
        ($f:expr) => {{
            let f: u8 = $f;
            if let Some(i) = pick!(owned_f, f) {
                let c = owned_f[i].clone();
                let old = std::mem::replace(&mut owned_f[i], c);
                drop(old);
                st.clone_drops += 1;
            }
            if let Some(i) = pick!(owned_r, f) {
                let c = owned_r[i].clone();
                let old = std::mem::replace(&mut owned_r[i], c);
                drop(old);
            }
            if let Some(i) = pick!(owned_it, f) {
                let c = owned_it[i].it.clone();
                let old = std::mem::replace(&mut owned_it[i].it, c);
                drop(old);
                st.clone_drops += 1;
            }
            if let Some(i) = pick!(owned_rit, f) {
                let c = owned_rit[i].it.clone();
                let old = std::mem::replace(&mut owned_rit[i].it, c);
                drop(old);
            }
            // an allocation of the needle's size class, with other contents, likely reuses the freed block
            let reuse: Vec<u8> = vec![0xC3; needle_model.len()];
            std::hint::black_box(&reuse);
            if let Some(i) = pick!(owned_f, f) {
                if owned_f[i].needle() != &needle_model[..] {
                    return Err(format!("needle() of the clone of an owned finder differs from the construction needle once the source is dropped: {:?}", owned_f[i].needle()));
                }
            }
            if let Some(i) = pick!(owned_r, f) {
                if owned_r[i].needle() != &needle_model[..] {
                    return Err(format!("needle() of the clone of an owned reverse finder differs from the construction needle once the source is dropped: {:?}", owned_r[i].needle()));
                }
            }
        }};
    }
    macro_rules! step {
        ($slot:expr, $model:expr, $what:expr, $k:expr) => {{
            st.steps += 1;
            let r = $slot.it.next();
            let e = $model[$slot.hay].get($slot.pos).copied();
            if r != e {
                return Err(format!("{} #{} over haystack {}: item {} = {:?}, but a fresh uninterrupted iterator yields {:?}", $what, $k, $slot.hay, $slot.pos, r, e));
            }
            if e.is_some() {
                $slot.pos += 1;
            }
        }};
    }

    {
        let mut needle_buf: Vec<u8> = h.needle.clone();
        {
            let nb: &[u8] = &needle_buf;
            let mut fs: Vec<Finder<'_>> = vec![Finder::new(nb)];
            let mut rs: Vec<FinderRev<'_>> = vec![FinderRev::new(nb)];
            let mut its: Vec<IterSlot<FindIter<'_, '_>>> = Vec::new();
            let mut rits: Vec<IterSlot<FindRevIter<'_, '_>>> = Vec::new();
            for (k, op) in h.before.iter().enumerate() {
                match op {
                    Op::Find(f, hi) => {
                        let fi = (*f as usize) % fs.len();
                        search!(fs[fi], (*hi as usize) % hays.len(), "borrowed finder", k);
                    }
                    Op::Rfind(f, hi) => {
                        let fi = (*f as usize) % rs.len();
                        rsearch!(rs[fi], (*hi as usize) % hays.len(), "borrowed reverse finder", k);
                    }
                    Op::StartIter(f, hi) => {
                        let fi = (*f as usize) % fs.len();
                        let hi = (*hi as usize) % hays.len();
                        // the iterator must not borrow `fs` (it is pushed to below): go through a clone kept alive in the iterator itself
                        let it = fs[fi].clone().find_iter(&hays[hi]).into_owned();
                        // borrowed variant: top-level function borrows the needle buffer directly
                        let it2 = memchr::memmem::find_iter(&hays[hi], nb);
                        owned_it.push(IterSlot { it, hay: hi, pos: 0 });
                        its.push(IterSlot { it: it2, hay: hi, pos: 0 });
                    }
                    Op::StartRevIter(f, hi) => {
                        let fi = (*f as usize) % rs.len();
                        let hi = (*hi as usize) % hays.len();
                        let it = rs[fi].clone().rfind_iter(&hays[hi]).into_owned();
                        let it2 = memchr::memmem::rfind_iter(&hays[hi], nb);
                        owned_rit.push(IterSlot { it, hay: hi, pos: 0 });
                        rits.push(IterSlot { it: it2, hay: hi, pos: 0 });
                    }
                    Op::Step(i) => {
                        if let Some(i) = pick!(its, *i) {
                            step!(its[i], fwd, "borrowed find_iter", k);
                        }
                        if let Some(i) = pick!(owned_it, *i) {
                            step!(owned_it[i], fwd, "owned find_iter", k);
                        }
                    }
                    Op::StepRev(i) => {
                        if let Some(i) = pick!(rits, *i) {
                            step!(rits[i], rev, "borrowed rfind_iter", k);
                        }
                        if let Some(i) = pick!(owned_rit, *i) {
                            step!(owned_rit[i], rev, "owned rfind_iter", k);
                        }
                    }
                    Op::CloneFinder(f) => {
                        let fi = (*f as usize) % fs.len();
                        let c = fs[fi].clone();
                        fs.push(c);
                        let ri = (*f as usize) % rs.len();
                        let c = rs[ri].clone();
                        rs.push(c);
                    }
                    Op::AsRef(f) => {
                        // as_ref borrows the finder: use it on the spot for two searches
                        let fi = (*f as usize) % fs.len();
                        let a = fs[fi].as_ref();
                        for hi in 0..hays.len().min(2) {
                            search!(a, hi, "as_ref() of a finder", k);
                        }
                        if a.needle() != &needle_model[..] {
                            return Err(format!("as_ref().needle() differs from the construction needle at op {}", k));
                        }
                        let ri = (*f as usize) % rs.len();
                        let a = rs[ri].as_ref();
                        rsearch!(a, 0, "as_ref() of a reverse finder", k);
                    }
                    Op::IntoOwned(f) => {
                        let fi = (*f as usize) % fs.len();
                        owned_f.push(fs[fi].clone().into_owned());
                        let ri = (*f as usize) % rs.len();
                        owned_r.push(rs[ri].clone().into_owned());
                    }
                    Op::CloneIter(i) => {
                        if let Some(i) = pick!(its, *i) {
                            if its[i].pos > 0 {
                                st.clones_of_partial += 1;
                            }
                            let c = IterSlot { it: its[i].it.clone(), hay: its[i].hay, pos: its[i].pos };
                            its.push(c);
                        }
                    }
                    Op::IntoOwnedIter(i) => {
                        if let Some(i) = pick!(its, *i) {
                            if its[i].pos > 0 {
                                st.clones_of_partial += 1;
                            }
                            let c = IterSlot { it: its[i].it.clone().into_owned(), hay: its[i].hay, pos: its[i].pos };
                            owned_it.push(c);
                        }
                    }
                    Op::CloneRevIter(i) => {
                        if let Some(i) = pick!(rits, *i) {
                            if rits[i].pos > 0 {
                                st.clones_of_partial += 1;
                            }
                            let c = IterSlot { it: rits[i].it.clone(), hay: rits[i].hay, pos: rits[i].pos };
                            rits.push(c);
                        }
                    }
                    Op::IntoOwnedRevIter(i) => {
                        if let Some(i) = pick!(rits, *i) {
                            if rits[i].pos > 0 {
                                st.clones_of_partial += 1;
                            }
                            let c = IterSlot { it: rits[i].it.clone().into_owned(), hay: rits[i].hay, pos: rits[i].pos };
                            owned_rit.push(c);
                        }
                    }
                    Op::CloneDrop(f) => clone_drop!(*f),
                    Op::Buf(f, hi, mode) => {
                        let fi = (*f as usize) % fs.len();
                        let ri = (*f as usize) % rs.len();
                        bufsearch!(fs[fi], rs[ri], (*hi as usize) % hays.len(), *mode, "borrowed finder", k);
                    }
                    Op::CheckNeedle(f) => {
                        let fi = (*f as usize) % fs.len();
                        if fs[fi].needle() != &needle_model[..] {
                            return Err(format!("needle() of borrowed finder differs from the construction needle at op {}", k));
                        }
                        let ri = (*f as usize) % rs.len();
                        if rs[ri].needle() != &needle_model[..] {
                            return Err(format!("needle() of borrowed reverse finder differs from the construction needle at op {}", k));
                        }
                    }
                }
            }
        }
        // the original needle buffer goes away
        for b in needle_buf.iter_mut() {
            *b = !*b ^ 0x5A;
        }
        std::hint::black_box(&mut needle_buf);
        drop(needle_buf);
    }
    // a fresh allocation of the same size class, filled with other bytes, likely reuses the freed block
    let reuse: Vec<u8> = vec![0xEE; h.needle.len()];
    std::hint::black_box(&reuse);

    for (k, op) in h.after.iter().enumerate() {
        st.owned_after_drop += 1;
        match op {
            Op::Find(f, hi) => {
                if let Some(fi) = pick!(owned_f, *f) {
                    search!(owned_f[fi], (*hi as usize) % hays.len(), "owned finder after the needle buffer was freed", k);
                }
            }
            Op::Rfind(f, hi) => {
                if let Some(fi) = pick!(owned_r, *f) {
                    rsearch!(owned_r[fi], (*hi as usize) % hays.len(), "owned reverse finder after the needle buffer was freed", k);
                }
            }
            Op::StartIter(f, hi) => {
                if let Some(fi) = pick!(owned_f, *f) {
                    let hi = (*hi as usize) % hays.len();
                    let it = owned_f[fi].clone().find_iter(&hays[hi]).into_owned();
                    owned_it.push(IterSlot { it, hay: hi, pos: 0 });
                }
            }
            Op::StartRevIter(f, hi) => {
                if let Some(fi) = pick!(owned_r, *f) {
                    let hi = (*hi as usize) % hays.len();
                    let it = owned_r[fi].clone().rfind_iter(&hays[hi]).into_owned();
                    owned_rit.push(IterSlot { it, hay: hi, pos: 0 });
                }
            }
            Op::Step(i) | Op::CloneIter(i) | Op::IntoOwnedIter(i) => {
                if let Some(i) = pick!(owned_it, *i) {
                    if matches!(op, Op::CloneIter(_)) {
                        let c = IterSlot { it: owned_it[i].it.clone(), hay: owned_it[i].hay, pos: owned_it[i].pos };
                        owned_it.push(c);
                    }
                    step!(owned_it[i], fwd, "owned find_iter after the needle buffer was freed", k);
                }
            }
            Op::StepRev(i) | Op::CloneRevIter(i) | Op::IntoOwnedRevIter(i) => {
                if let Some(i) = pick!(owned_rit, *i) {
                    step!(owned_rit[i], rev, "owned rfind_iter after the needle buffer was freed", k);
                }
            }
            Op::CloneFinder(f) | Op::AsRef(f) | Op::IntoOwned(f) => {
                if let Some(fi) = pick!(owned_f, *f) {
                    let c = owned_f[fi].as_ref().into_owned();
                    search!(c, 0, "as_ref().into_owned() of an owned finder", k);
                    owned_f.push(c);
                }
            }
            Op::CloneDrop(f) => clone_drop!(*f),
            Op::Buf(f, hi, mode) => {
                if let (Some(fi), Some(ri)) = (pick!(owned_f, *f), pick!(owned_r, *f)) {
                    bufsearch!(owned_f[fi], owned_r[ri], (*hi as usize) % hays.len(), *mode, "owned finder after the needle buffer was freed", k);
                }
            }
            Op::CheckNeedle(f) => {
                if let Some(fi) = pick!(owned_f, *f) {
                    if owned_f[fi].needle() != &needle_model[..] {
                        return Err(format!("needle() of owned finder differs from the construction needle after the buffer was freed (op {})", k));
                    }
                }
                if let Some(fi) = pick!(owned_r, *f) {
                    if owned_r[fi].needle() != &needle_model[..] {
                        return Err(format!("needle() of owned reverse finder differs from the construction needle after the buffer was freed (op {})", k));
                    }
                }
            }
        }
    }
    // drain every surviving owned iterator
    for (i, s) in owned_it.iter_mut().enumerate() {
        loop {
            let before = s.pos;
            step!(s, fwd, "owned find_iter (drain)", i);
            if s.pos == before {
                break;
            }
        }
    }
    for (i, s) in owned_rit.iter_mut().enumerate() {
        loop {
            let before = s.pos;
            step!(s, rev, "owned rfind_iter (drain)", i);
            if s.pos == before {
                break;
            }
        }
    }
    Ok(())
}

pub fn parse_op(s: &str) -> Option<Op> {
    let lp = s.find('(')?;
    let name = &s[..lp];
    let args: Vec<u8> = s[lp + 1..s.len() - 1].split(',').filter_map(|x| x.trim().parse().ok()).collect();
    let a = *args.get(0)?;
    let b = args.get(1).copied().unwrap_or(0);
    let c = args.get(2).copied().unwrap_or(0);
    Some(match name {
        "Find" => Op::Find(a, b),
        "Rfind" => Op::Rfind(a, b),
        "StartIter" => Op::StartIter(a, b),
        "StartRevIter" => Op::StartRevIter(a, b),
        "Step" => Op::Step(a),
        "StepRev" => Op::StepRev(a),
        "CloneFinder" => Op::CloneFinder(a),
        "AsRef" => Op::AsRef(a),
        "IntoOwned" => Op::IntoOwned(a),
        "CloneIter" => Op::CloneIter(a),
        "IntoOwnedIter" => Op::IntoOwnedIter(a),
        "CloneRevIter" => Op::CloneRevIter(a),
        "IntoOwnedRevIter" => Op::IntoOwnedRevIter(a),
        "CheckNeedle" => Op::CheckNeedle(a),
        "Buf" => Op::Buf(a, b, c),
        "CloneDrop" => Op::CloneDrop(a),
        _ => return None,
    })
}


impl History {
    pub fn encode(&self) -> String {
        let ops = |v: &Vec<Op>| -> String {
            if v.is_empty() { "-".to_string() } else { v.iter().map(|o| format!("{:?}", o).replace(' ', "")).collect::<Vec<_>>().join(";") }
        };
        format!("H {} {} {} {}", hex(&self.needle), self.hays.iter().map(|h| hex(h)).collect::<Vec<_>>().join(","), ops(&self.before), ops(&self.after))
    }

    pub fn decode(line: &str) -> Option<History> {
        let f: Vec<&str> = line.split_whitespace().collect();
        if f.len() < 5 || f[0] != "H" {
            return None;
        }
        let ops = |s: &str| -> Vec<Op> {
            if s == "-" { Vec::new() } else { s.split(';').filter_map(parse_op).collect() }
        };
        Some(History { needle: unhex(f[1]), hays: f[2].split(',').map(unhex).collect(), before: ops(f[3]), after: ops(f[4]) })
    }
}
