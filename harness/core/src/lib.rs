//! Dependency-free core of the memchr verification harness: naive oracles,
//! the table of implementations under test, the case model with its binary
//! codec, and the executor/judge shared by native runs, emulated back ends
//! and Miri.

pub mod bytes;
pub mod cfgs;
pub mod oracle;
pub mod subs;
pub mod exec;
#[cfg(any(feature = "std", feature = "alloc"))]
pub mod hist;
pub mod threads;
