//! Which backends does this build contain?

pub fn cfg_x86() -> bool {
    cfg!(all(target_arch = "x86_64", not(memchr_emu)))
}

pub fn cfg_neon() -> bool {
    cfg!(any(
        all(target_arch = "aarch64", not(memchr_emu)),
        all(memchr_emu_arch = "aarch64", memchr_emu_feature = "neon")
    ))
}

pub fn cfg_simd128() -> bool {
    cfg!(all(memchr_emu_arch = "wasm32", memchr_emu_feature = "simd128"))
}

pub fn cfg_verif() -> bool {
    cfg!(memchr_verif)
}

pub fn cfg_emu() -> bool {
    cfg!(memchr_emu)
}

pub fn host_has_avx2() -> bool {
    #[cfg(all(target_arch = "x86_64", feature = "std"))]
    {
        std::is_x86_feature_detected!("avx2")
    }
    #[cfg(not(all(target_arch = "x86_64", feature = "std")))]
    {
        cfg!(target_feature = "avx2")
    }
}

/// Forced CPU level (0 auto, 1 no AVX2, 2 no SSE2); 0 when the hook is absent.
pub fn level() -> u8 {
    #[cfg(memchr_verif)]
    {
        memchr::verif::cpu_level()
    }
    #[cfg(not(memchr_verif))]
    {
        0
    }
}

pub fn set_level(_l: u8) {
    #[cfg(memchr_verif)]
    memchr::verif::set_cpu_level(_l);
}

/// A short name of the configuration this binary was built as.
pub fn config_name() -> String {
    let mut s = String::new();
    if cfg_emu() {
        if cfg_neon() {
            s.push_str("E-neon");
        } else if cfg_simd128() {
            s.push_str("E-wasm");
        } else if cfg!(memchr_emu_arch = "aarch64") {
            s.push_str("E-a64nn");
        } else {
            s.push_str("E-none");
        }
        if !cfg!(debug_assertions) {
            s.push_str("-plain");
        }
    } else if cfg!(miri) {
        s.push_str("M-");
        s.push_str(std::env::consts::ARCH);
        if cfg!(target_feature = "avx2") {
            s.push_str("+avx2");
        }
    } else {
        s.push_str("N");
        if !cfg!(feature = "std") {
            s.push_str(if cfg!(feature = "alloc") { "-alloc" } else { "-nostd" });
        }
        if cfg!(target_feature = "avx2") {
            s.push_str("-avx2ct");
        }
        if !cfg!(debug_assertions) {
            s.push_str("-plain");
        }
        match level() {
            0 => s.push_str("-auto"),
            1 => s.push_str("-sse2"),
            _ => s.push_str("-fb"),
        }
    }
    s
}
