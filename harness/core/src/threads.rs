//! Thread programs for C15: N threads released by a barrier run lists of
//! search operations; every result is compared with the naive oracle
//! computed before the threads start. Executed by `mvexec threads <file>`
//! in a fresh process (so that the first calls race to install the CPU
//! specific implementation), natively, under Miri seeds and under TSan.

use crate::exec::{hex, unhex};
use memchr::memmem::{Finder, FinderRev};
use std::sync::mpsc;
use std::sync::{Arc, Barrier};

#[derive(Clone, Debug, PartialEq)]
pub enum TOp {
    Memchr(u8, u8),
    Memrchr(u8, u8),
    Memchr2(u8, u8, u8),
    Memrchr2(u8, u8, u8),
    Memchr3(u8, u8, u8, u8),
    Memrchr3(u8, u8, u8, u8),
    Count(u8, u8),
    /// shared Finder / FinderRev
    Find(u8),
    Rfind(u8),
    /// complete traversal with a clone of the shared finder's iterator
    FindIter(u8),
    /// take k items of a memchr iterator, then hand it to the next thread
    HandOff(u8, u8, u8),
    /// the one-shot free functions with a per-call needle (a prefix of the program's needle) on a
    /// haystack cut to below or above the 64-byte one-shot threshold: (haystack, needle length selector, cut selector, reverse?)
    OneShot(u8, u8, u8, u8),
    /// the shared finders on a prefix of a haystack (0..=40 bytes: the short-haystack paths of the meta
    /// searcher): (haystack, cut, 0 = find / 1 = rfind / 2 = find_iter)
    FindCut(u8, u8, u8),
}

#[derive(Clone, Debug, PartialEq)]
pub struct Program {
    pub needle: Vec<u8>,
    pub hays: Vec<Vec<u8>>,
    pub threads: Vec<Vec<TOp>>,
    /// every operation is repeated this many times in a row by its thread (all repetitions must
    /// return the same value); long loops make calls of different threads overlap natively
    pub reps: u32,
    /// the whole program is run this many times in the process, each time with freshly built shared finders
    pub rounds: u32,
}

impl Program {
    pub fn encode(&self) -> String {
        let mut s = String::new();
        s.push_str(&format!("needle {}\n", hex(&self.needle)));
        s.push_str(&format!("reps {}\n", self.reps));
        s.push_str(&format!("rounds {}\n", self.rounds));
        for h in &self.hays {
            s.push_str(&format!("hay {}\n", hex(h)));
        }
        for t in &self.threads {
            s.push_str("thread");
            for op in t {
                s.push(' ');
                s.push_str(&match op {
                    TOp::Memchr(a, h) => format!("memchr:{}:{}", a, h),
                    TOp::Memrchr(a, h) => format!("memrchr:{}:{}", a, h),
                    TOp::Memchr2(a, b, h) => format!("memchr2:{}:{}:{}", a, b, h),
                    TOp::Memrchr2(a, b, h) => format!("memrchr2:{}:{}:{}", a, b, h),
                    TOp::Memchr3(a, b, c, h) => format!("memchr3:{}:{}:{}:{}", a, b, c, h),
                    TOp::Memrchr3(a, b, c, h) => format!("memrchr3:{}:{}:{}:{}", a, b, c, h),
                    TOp::Count(a, h) => format!("count:{}:{}", a, h),
                    TOp::Find(h) => format!("find:{}", h),
                    TOp::Rfind(h) => format!("rfind:{}", h),
                    TOp::FindIter(h) => format!("finditer:{}", h),
                    TOp::HandOff(a, h, k) => format!("handoff:{}:{}:{}", a, h, k),
                    TOp::OneShot(h, n, c, r) => format!("oneshot:{}:{}:{}:{}", h, n, c, r),
                    TOp::FindCut(h, c, m) => format!("findcut:{}:{}:{}", h, c, m),
                });
            }
            s.push('\n');
        }
        s
    }

    pub fn decode(text: &str) -> Option<Program> {
        let mut p = Program { needle: Vec::new(), hays: Vec::new(), threads: Vec::new(), reps: 1, rounds: 1 };
        for line in text.lines() {
            let mut it = line.split_whitespace();
            match it.next() {
                Some("needle") => p.needle = unhex(it.next()?),
                Some("hay") => p.hays.push(unhex(it.next()?)),
                Some("reps") => p.reps = it.next()?.parse().ok()?,
                Some("rounds") => p.rounds = it.next()?.parse().ok()?,
                Some("thread") => {
                    let mut ops = Vec::new();
                    for tok in it {
                        let f: Vec<&str> = tok.split(':').collect();
                        let a = |i: usize| -> Option<u8> { f.get(i)?.parse().ok() };
                        ops.push(match f[0] {
                            "memchr" => TOp::Memchr(a(1)?, a(2)?),
                            "memrchr" => TOp::Memrchr(a(1)?, a(2)?),
                            "memchr2" => TOp::Memchr2(a(1)?, a(2)?, a(3)?),
                            "memrchr2" => TOp::Memrchr2(a(1)?, a(2)?, a(3)?),
                            "memchr3" => TOp::Memchr3(a(1)?, a(2)?, a(3)?, a(4)?),
                            "memrchr3" => TOp::Memrchr3(a(1)?, a(2)?, a(3)?, a(4)?),
                            "count" => TOp::Count(a(1)?, a(2)?),
                            "find" => TOp::Find(a(1)?),
                            "rfind" => TOp::Rfind(a(1)?),
                            "finditer" => TOp::FindIter(a(1)?),
                            "handoff" => TOp::HandOff(a(1)?, a(2)?, a(3)?),
                            "oneshot" => TOp::OneShot(a(1)?, a(2)?, a(3)?, a(4)?),
                            "findcut" => TOp::FindCut(a(1)?, a(2)?, a(3)?),
                            _ => return None,
                        });
                    }
                    p.threads.push(ops);
                }
                _ => {}
            }
        }
        if p.hays.is_empty() {
            return None;
        }
        Some(p)
    }
}

fn enc(o: Option<usize>) -> i64 {
    match o {
        None => -1,
        Some(i) => i as i64,
    }
}

/// The answer of one operation executed on its own, sequentially, by the
/// crate itself: what the call "would return in isolation" (C15's statement).
/// It is evaluated only AFTER all threads have finished, so that the first
/// calls of the process still race to install the dispatched implementation.
fn sequential(p: &Program, finder: &Finder<'_>, rfinder: &FinderRev<'_>, op: &TOp) -> Vec<i64> {
    let h = |i: u8| -> &[u8] { &p.hays[i as usize % p.hays.len()] };
    match op {
        TOp::Memchr(a, i) => vec![enc(memchr::memchr(*a, h(*i)))],
        TOp::Memrchr(a, i) => vec![enc(memchr::memrchr(*a, h(*i)))],
        TOp::Memchr2(a, b, i) => vec![enc(memchr::memchr2(*a, *b, h(*i)))],
        TOp::Memrchr2(a, b, i) => vec![enc(memchr::memrchr2(*a, *b, h(*i)))],
        TOp::Memchr3(a, b, c, i) => vec![enc(memchr::memchr3(*a, *b, *c, h(*i)))],
        TOp::Memrchr3(a, b, c, i) => vec![enc(memchr::memrchr3(*a, *b, *c, h(*i)))],
        TOp::Count(a, i) => vec![memchr::memchr_iter(*a, h(*i)).count() as i64],
        TOp::Find(i) => vec![enc(finder.find(h(*i)))],
        TOp::Rfind(i) => vec![enc(rfinder.rfind(h(*i)))],
        TOp::FindIter(i) => finder.find_iter(h(*i)).map(|x| x as i64).collect(),
        TOp::HandOff(a, i, _) => memchr::memchr_iter(*a, h(*i)).map(|x| x as i64).collect(),
        TOp::FindCut(i, cut, mode) => {
            let full = h(*i);
            let hay = &full[..full.len().min(*cut as usize % 41)];
            match mode % 3 {
                0 => vec![enc(finder.find(hay))],
                1 => vec![enc(rfinder.rfind(hay))],
                _ => finder.find_iter(hay).take(hay.len() + 2).map(|x| x as i64).collect(),
            }
        }
        TOp::OneShot(i, nsel, csel, rev) => {
            let full = h(*i);
            let needle: &[u8] = if p.needle.is_empty() { &p.needle } else { &p.needle[..1 + (*nsel as usize) % p.needle.len().min(24)] };
            // below the one-shot threshold (64 bytes) the haystack is a private copy with the needle
            // planted at an offset >= 1, so that a hit requires the rolling hash to roll
            let mut short = [0u8; 63];
            let hay: &[u8] = if csel % 2 == 1 {
                full
            } else {
                let l = full.len().min(20 + (*csel as usize) % 44);
                short[..l].copy_from_slice(&full[..l]);
                if csel % 8 != 0 && needle.len() < l {
                    let off = 1 + ((*csel as usize) >> 3) % (l - needle.len());
                    short[off..off + needle.len()].copy_from_slice(needle);
                }
                &short[..l]
            };
            match rev % 3 {
                0 => vec![enc(memchr::memmem::find(hay, needle))],
                1 => vec![enc(memchr::memmem::rfind(hay, needle))],
                _ => memchr::memmem::find_iter(hay, needle).take(hay.len() + 2).map(|x| x as i64).collect(),
            }
        }
    }
}

/// Runs the program; returns a description of the first disagreement
/// between what a thread observed and what the same call returns on its own
/// afterwards.
pub fn run(p: &Program) -> Result<u64, String> {
    let rounds = if cfg!(miri) { 1 } else { p.rounds.max(1) };
    let mut calls = 0;
    for r in 0..rounds {
        calls += run_round(p).map_err(|e| format!("round {}: {}", r, e))?;
    }
    Ok(calls)
}

fn run_round(p: &Program) -> Result<u64, String> {
    let nthreads = p.threads.len();
    if nthreads == 0 {
        return Ok(0);
    }
    // everything the threads need is prepared without touching the crate's dispatched routines
    let finder = Finder::new(&p.needle);
    let rfinder = FinderRev::new(&p.needle);
    let barrier = Arc::new(Barrier::new(nthreads));
    // after the (futex) barrier the threads spin on a counter, so that they start within nanoseconds of each other
    let arrived = Arc::new(std::sync::atomic::AtomicUsize::new(0));
    let prog = p;
    // a ring of channels for handing iterators to the next thread
    let mut senders = Vec::new();
    let mut receivers = Vec::new();
    for _ in 0..nthreads {
        let (tx, rx) = mpsc::channel::<(memchr::Memchr<'_>, usize, usize)>();
        senders.push(tx);
        receivers.push(Some(rx));
    }
    // observations: (thread, op index) -> values; handed-off remainders: (from thread, op index) -> values
    type Obs = Vec<(usize, usize, Vec<i64>)>;
    let results: Vec<Result<(Obs, Obs), String>> = std::thread::scope(|sc| {
        let mut handles = Vec::new();
        for t in 0..nthreads {
            let barrier = barrier.clone();
            let arrived = arrived.clone();
            let finder = &finder;
            let rfinder = &rfinder;
            let ops = &prog.threads[t];
            let next_tx = senders[(t + 1) % nthreads].clone();
            let my_rx = receivers[t].take().unwrap();
            handles.push(sc.spawn(move || -> Result<(Obs, Obs), String> {
                let h = |i: u8| -> &[u8] { &prog.hays[i as usize % prog.hays.len()] };
                let mut obs: Obs = Vec::new();
                barrier.wait();
                if !cfg!(miri) && nthreads <= 8 {
                    arrived.fetch_add(1, std::sync::atomic::Ordering::SeqCst);
                    let mut spins = 0u32;
                    while arrived.load(std::sync::atomic::Ordering::SeqCst) < nthreads && spins < 100_000 {
                        std::hint::spin_loop();
                        spins += 1;
                    }
                }
                for (k, op) in ops.iter().enumerate() {
                    let got: Vec<i64> = match op {
                        TOp::HandOff(a, i, take) => {
                            // consume `take` items here, the next thread consumes the rest
                            let mut it = memchr::memchr_iter(*a, h(*i));
                            let mut got = Vec::new();
                            for _ in 0..*take {
                                match it.next() {
                                    Some(x) => got.push(x as i64),
                                    None => break,
                                }
                            }
                            let _ = next_tx.send((it, t, k));
                            got
                        }
                        other => {
                            let mut got = sequential(prog, finder, rfinder, other);
                            let reps = if cfg!(miri) { prog.reps.min(2) } else { prog.reps };
                            for _ in 1..reps {
                                let again = sequential(prog, finder, rfinder, other);
                                if again != got {
                                    got = again;
                                    break;
                                }
                            }
                            got
                        }
                    };
                    obs.push((t, k, got));
                }
                drop(next_tx);
                Ok((obs, Vec::new()))
            }));
            handles.push(sc.spawn(move || -> Result<(Obs, Obs), String> {
                let mut rest: Obs = Vec::new();
                while let Ok((it, from, k)) = my_rx.recv() {
                    rest.push((from, k, it.map(|x| x as i64).collect()));
                }
                Ok((Vec::new(), rest))
            }));
        }
        drop(senders);
        handles.into_iter().map(|h| h.join().unwrap_or_else(|_| Err("a thread panicked".to_string()))).collect()
    });
    let mut calls = 0u64;
    let mut obs: Obs = Vec::new();
    let mut rests: Obs = Vec::new();
    for r in results {
        let (o, r2) = r?;
        obs.extend(o);
        rests.extend(r2);
    }
    // the reference: the same calls, one after the other, now that all threads are gone
    for (t, k, got) in obs.iter() {
        calls += 1;
        let op = &p.threads[*t][*k];
        let seq = sequential(p, &finder, &rfinder, op);
        if let TOp::HandOff(..) = op {
            let rest = rests.iter().find(|(f, kk, _)| f == t && kk == k).map(|x| x.2.clone()).unwrap_or_default();
            let mut whole = got.clone();
            whole.extend(rest);
            if whole != seq {
                return Err(format!("thread {} op {} {:?}: first part {:?} + remainder consumed by the next thread = {:?}, the same iteration on its own yields {:?}", t, k, op, got, whole, seq));
            }
        } else if *got != seq {
            return Err(format!("thread {} op {} {:?}: returned {:?} concurrently, {:?} when called on its own afterwards", t, k, op, got, seq));
        }
    }
    Ok(calls)
}
