//! Thread programs for C15: N threads released by a barrier run lists of
//! search operations; every result is compared with the naive oracle
//! computed before the threads start. Executed by `mvexec threads <file>`
//! in a fresh process (so that the first calls race to install the CPU
//! specific implementation), natively, under Miri seeds and under TSan.

use crate::exec::{hex, unhex};
use crate::oracle;
use memchr::memmem::{Finder, FinderRev};
use std::sync::mpsc;
use std::sync::{Arc, Barrier};

#[derive(Clone, Debug, PartialEq)]
pub enum TOp {
    Memchr(u8, u8),
    Memrchr(u8, u8),
    Memchr2(u8, u8, u8),
    Memrchr2(u8, u8, u8),
    Memchr3(u8, u8, u8, u8),
    Memrchr3(u8, u8, u8, u8),
    Count(u8, u8),
    /// shared Finder / FinderRev
    Find(u8),
    Rfind(u8),
    /// complete traversal with a clone of the shared finder's iterator
    FindIter(u8),
    /// take k items of a memchr iterator, then hand it to the next thread
    HandOff(u8, u8, u8),
}

#[derive(Clone, Debug, PartialEq)]
pub struct Program {
    pub needle: Vec<u8>,
    pub hays: Vec<Vec<u8>>,
    pub threads: Vec<Vec<TOp>>,
}

impl Program {
    pub fn encode(&self) -> String {
        let mut s = String::new();
        s.push_str(&format!("needle {}\n", hex(&self.needle)));
        for h in &self.hays {
            s.push_str(&format!("hay {}\n", hex(h)));
        }
        for t in &self.threads {
            s.push_str("thread");
            for op in t {
                s.push(' ');
                s.push_str(&match op {
                    TOp::Memchr(a, h) => format!("memchr:{}:{}", a, h),
                    TOp::Memrchr(a, h) => format!("memrchr:{}:{}", a, h),
                    TOp::Memchr2(a, b, h) => format!("memchr2:{}:{}:{}", a, b, h),
                    TOp::Memrchr2(a, b, h) => format!("memrchr2:{}:{}:{}", a, b, h),
                    TOp::Memchr3(a, b, c, h) => format!("memchr3:{}:{}:{}:{}", a, b, c, h),
                    TOp::Memrchr3(a, b, c, h) => format!("memrchr3:{}:{}:{}:{}", a, b, c, h),
                    TOp::Count(a, h) => format!("count:{}:{}", a, h),
                    TOp::Find(h) => format!("find:{}", h),
                    TOp::Rfind(h) => format!("rfind:{}", h),
                    TOp::FindIter(h) => format!("finditer:{}", h),
                    TOp::HandOff(a, h, k) => format!("handoff:{}:{}:{}", a, h, k),
                });
            }
            s.push('\n');
        }
        s
    }

    pub fn decode(text: &str) -> Option<Program> {
        let mut p = Program { needle: Vec::new(), hays: Vec::new(), threads: Vec::new() };
        for line in text.lines() {
            let mut it = line.split_whitespace();
            match it.next() {
                Some("needle") => p.needle = unhex(it.next()?),
                Some("hay") => p.hays.push(unhex(it.next()?)),
                Some("thread") => {
                    let mut ops = Vec::new();
                    for tok in it {
                        let f: Vec<&str> = tok.split(':').collect();
                        let a = |i: usize| -> Option<u8> { f.get(i)?.parse().ok() };
                        ops.push(match f[0] {
                            "memchr" => TOp::Memchr(a(1)?, a(2)?),
                            "memrchr" => TOp::Memrchr(a(1)?, a(2)?),
                            "memchr2" => TOp::Memchr2(a(1)?, a(2)?, a(3)?),
                            "memrchr2" => TOp::Memrchr2(a(1)?, a(2)?, a(3)?),
                            "memchr3" => TOp::Memchr3(a(1)?, a(2)?, a(3)?, a(4)?),
                            "memrchr3" => TOp::Memrchr3(a(1)?, a(2)?, a(3)?, a(4)?),
                            "count" => TOp::Count(a(1)?, a(2)?),
                            "find" => TOp::Find(a(1)?),
                            "rfind" => TOp::Rfind(a(1)?),
                            "finditer" => TOp::FindIter(a(1)?),
                            "handoff" => TOp::HandOff(a(1)?, a(2)?, a(3)?),
                            _ => return None,
                        });
                    }
                    p.threads.push(ops);
                }
                _ => {}
            }
        }
        if p.hays.is_empty() {
            return None;
        }
        Some(p)
    }
}

fn enc(o: Option<usize>) -> i64 {
    match o {
        None => -1,
        Some(i) => i as i64,
    }
}

/// The sequential answer of one operation (naive oracle only).
fn expected(p: &Program, op: &TOp) -> Vec<i64> {
    let h = |i: u8| -> &[u8] { &p.hays[i as usize % p.hays.len()] };
    match op {
        TOp::Memchr(a, i) => vec![enc(oracle::naive_pos(&[*a], h(*i)))],
        TOp::Memrchr(a, i) => vec![enc(oracle::naive_rpos(&[*a], h(*i)))],
        TOp::Memchr2(a, b, i) => vec![enc(oracle::naive_pos(&[*a, *b], h(*i)))],
        TOp::Memrchr2(a, b, i) => vec![enc(oracle::naive_rpos(&[*a, *b], h(*i)))],
        TOp::Memchr3(a, b, c, i) => vec![enc(oracle::naive_pos(&[*a, *b, *c], h(*i)))],
        TOp::Memrchr3(a, b, c, i) => vec![enc(oracle::naive_rpos(&[*a, *b, *c], h(*i)))],
        TOp::Count(a, i) => vec![oracle::naive_count(&[*a], h(*i)) as i64],
        TOp::Find(i) => vec![enc(oracle::naive_find(h(*i), &p.needle))],
        TOp::Rfind(i) => vec![enc(oracle::naive_rfind(h(*i), &p.needle))],
        TOp::FindIter(i) => oracle::greedy_fwd(h(*i), &p.needle).into_iter().map(|x| x as i64).collect(),
        TOp::HandOff(a, i, _) => oracle::naive_positions(&[*a], h(*i)).into_iter().map(|x| x as i64).collect(),
    }
}

/// Runs the program; returns a description of the first disagreement.
pub fn run(p: &Program) -> Result<u64, String> {
    let nthreads = p.threads.len();
    if nthreads == 0 {
        return Ok(0);
    }
    // everything the threads need is prepared without touching the crate's dispatched routines
    let expect: Vec<Vec<Vec<i64>>> = p.threads.iter().map(|ops| ops.iter().map(|op| expected(p, op)).collect()).collect();
    let finder = Finder::new(&p.needle);
    let rfinder = FinderRev::new(&p.needle);
    let barrier = Arc::new(Barrier::new(nthreads));
    let prog = p;
    // a ring of channels for handing iterators to the next thread
    let mut senders = Vec::new();
    let mut receivers = Vec::new();
    for _ in 0..nthreads {
        let (tx, rx) = mpsc::channel::<(memchr::Memchr<'_>, usize, usize, usize)>();
        senders.push(tx);
        receivers.push(Some(rx));
    }
    let results: Vec<Result<u64, String>> = std::thread::scope(|sc| {
        let mut handles = Vec::new();
        for t in 0..nthreads {
            let barrier = barrier.clone();
            let finder = &finder;
            let rfinder = &rfinder;
            let ops = &prog.threads[t];
            let exp = &expect[t];
            let next_tx = senders[(t + 1) % nthreads].clone();
            let my_rx = receivers[t].take().unwrap();
            handles.push(sc.spawn(move || -> Result<u64, String> {
                let h = |i: u8| -> &[u8] { &prog.hays[i as usize % prog.hays.len()] };
                let mut calls = 0u64;
                let mut sent = 0usize;
                barrier.wait();
                for (k, op) in ops.iter().enumerate() {
                    calls += 1;
                    let got: Vec<i64> = match op {
                        TOp::Memchr(a, i) => vec![enc(memchr::memchr(*a, h(*i)))],
                        TOp::Memrchr(a, i) => vec![enc(memchr::memrchr(*a, h(*i)))],
                        TOp::Memchr2(a, b, i) => vec![enc(memchr::memchr2(*a, *b, h(*i)))],
                        TOp::Memrchr2(a, b, i) => vec![enc(memchr::memrchr2(*a, *b, h(*i)))],
                        TOp::Memchr3(a, b, c, i) => vec![enc(memchr::memchr3(*a, *b, *c, h(*i)))],
                        TOp::Memrchr3(a, b, c, i) => vec![enc(memchr::memrchr3(*a, *b, *c, h(*i)))],
                        TOp::Count(a, i) => vec![memchr::memchr_iter(*a, h(*i)).count() as i64],
                        TOp::Find(i) => vec![enc(finder.find(h(*i)))],
                        TOp::Rfind(i) => vec![enc(rfinder.rfind(h(*i)))],
                        TOp::FindIter(i) => finder.find_iter(h(*i)).map(|x| x as i64).collect(),
                        TOp::HandOff(a, i, take) => {
                            // consume `take` items here, the next thread consumes the rest
                            let mut it = memchr::memchr_iter(*a, h(*i));
                            let mut got = Vec::new();
                            for _ in 0..*take {
                                match it.next() {
                                    Some(x) => got.push(x as i64),
                                    None => break,
                                }
                            }
                            let e = &exp[k];
                            if got[..] != e[..got.len().min(e.len())] || got.len() > e.len() {
                                return Err(format!("thread {} op {} {:?}: first part {:?}, sequential {:?}", t, k, op, got, e));
                            }
                            let _ = next_tx.send((it, t, k, got.len()));
                            sent += 1;
                            continue;
                        }
                    };
                    if got != exp[k] {
                        return Err(format!("thread {} op {} {:?}: got {:?}, sequential answer {:?}", t, k, op, got, exp[k]));
                    }
                }
                let _ = sent;
                drop(next_tx);
                Ok(calls)
            }));
            let _ = my_rx_holder(&mut handles, my_rx, &expect, t, sc);
        }
        drop(senders);
        handles.into_iter().map(|h| h.join().unwrap_or_else(|_| Err("a thread panicked".to_string()))).collect()
    });
    let mut calls = 0;
    for r in results {
        calls += r?;
    }
    Ok(calls)
}

/// Spawns the receiving half of thread `t`: it drains iterators handed over
/// by the previous thread and checks that they continue the sequential
/// sequence.
fn my_rx_holder<'scope, 'env>(
    handles: &mut Vec<std::thread::ScopedJoinHandle<'scope, Result<u64, String>>>,
    rx: mpsc::Receiver<(memchr::Memchr<'env>, usize, usize, usize)>,
    expect: &'env Vec<Vec<Vec<i64>>>,
    t: usize,
    sc: &'scope std::thread::Scope<'scope, 'env>,
) {
    handles.push(sc.spawn(move || -> Result<u64, String> {
        let mut calls = 0;
        while let Ok((it, from, k, already)) = rx.recv() {
            calls += 1;
            let rest: Vec<i64> = it.map(|x| x as i64).collect();
            let e = &expect[from][k];
            if rest[..] != e[already.min(e.len())..] {
                return Err(format!("iterator handed from thread {} (op {}) to thread {}: continued with {:?}, sequential remainder {:?}", from, k, t, rest, &e[already.min(e.len())..]));
            }
        }
        Ok(calls)
    }));
}
