#!/usr/bin/env python3
"""Create a cfg-rewritten scratch copy of the memchr crate that compiles the
aarch64/NEON, wasm32/simd128 or no-SIMD code paths natively against emulated
intrinsics (emu.rs).

    rewrite.py <repo> <dest-crate-dir>

Substitutions (mechanical, applied to every .rs file under <repo>/src):
  target_arch = "..."            -> memchr_emu_arch = "..."
  target_feature = "..." (cfg)   -> memchr_emu_feature = "..."
  #[target_feature(enable = "neon"|"simd128")] attribute lines are dropped
  core::arch::aarch64            -> crate::emu::aarch64
  core::arch::wasm32             -> crate::emu::wasm32
  `pub mod emu;` is added to lib.rs and emu.rs is copied next to it.
File mtimes are copied from the originals so that cargo only rebuilds when the
repository changed.
"""
import os, re, sys, shutil

HERE = os.path.dirname(os.path.abspath(__file__))


def rewrite_text(s, is_lib):
    s = re.sub(r'target_arch\s*=\s*"', 'memchr_emu_arch = "', s)
    s = re.sub(r'target_feature\s*=\s*"', 'memchr_emu_feature = "', s)
    s = re.sub(r'^[ \t]*#\[target_feature\(enable\s*=\s*"(?:neon|simd128)"\)\][ \t]*\n', '', s, flags=re.M)
    s = s.replace('core::arch::aarch64', 'crate::emu::aarch64')
    s = s.replace('core::arch::wasm32', 'crate::emu::wasm32')
    if is_lib:
        s = s.replace('mod vector;\n', 'mod vector;\npub mod emu;\n', 1)
        assert 'pub mod emu;' in s, "could not add `pub mod emu;` to lib.rs"
    return s


def write_if_changed(path, data, mtime):
    old = None
    if os.path.exists(path):
        with open(path, 'rb') as f:
            old = f.read()
    if old != data:
        os.makedirs(os.path.dirname(path), exist_ok=True)
        with open(path, 'wb') as f:
            f.write(data)
    os.utime(path, (mtime, mtime))


def main():
    repo, dest = sys.argv[1], sys.argv[2]
    src = os.path.join(repo, 'src')
    wanted = set()
    for root, dirs, files in os.walk(src):
        dirs[:] = [d for d in dirs if d != 'tests']
        for fn in files:
            if not fn.endswith('.rs'):
                continue
            p = os.path.join(root, fn)
            rel = os.path.relpath(p, src)
            text = open(p, encoding='utf-8').read()
            out = rewrite_text(text, rel == 'lib.rs')
            # test-only modules are not copied
            out = re.sub(r'^#\[cfg\(test\)\]\n#\[macro_use\]\nmod tests;\n', '', out, flags=re.M)
            dp = os.path.join(dest, 'src', rel)
            write_if_changed(dp, out.encode('utf-8'), os.path.getmtime(p))
            wanted.add(os.path.abspath(dp))
    emu = os.path.join(HERE, 'emu.rs')
    dp = os.path.join(dest, 'src', 'emu.rs')
    write_if_changed(dp, open(emu, 'rb').read(), os.path.getmtime(emu))
    wanted.add(os.path.abspath(dp))
    # remove stale files
    for root, dirs, files in os.walk(os.path.join(dest, 'src')):
        for fn in files:
            p = os.path.abspath(os.path.join(root, fn))
            if p not in wanted:
                os.remove(p)
    # manifest: same package name and features as the original
    man = open(os.path.join(repo, 'Cargo.toml'), encoding='utf-8').read()
    m = re.search(r'^version\s*=\s*"([^"]+)"', man, flags=re.M)
    version = m.group(1) if m else '0.0.0'
    cargo = f'''[package]
name = "memchr"
version = "{version}"
edition = "2021"

[lib]
name = "memchr"

[features]
default = ["std"]
std = ["alloc"]
alloc = []
logging = []

[lints.rust]
unexpected_cfgs = {{ level = "allow" }}
'''
    write_if_changed(os.path.join(dest, 'Cargo.toml'), cargo.encode(), os.path.getmtime(os.path.abspath(__file__)))


if __name__ == '__main__':
    main()
