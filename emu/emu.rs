//! Emulated NEON and wasm simd128 intrinsics, in plain lane-wise Rust.
//!
//! This file is copied into a cfg-rewritten scratch copy of the memchr
//! sources (see rewrite.py), where `core::arch::aarch64` and
//! `core::arch::wasm32` are replaced by `crate::emu::aarch64` and
//! `crate::emu::wasm32`. Only the intrinsics the crate uses are provided.
//! Every vector load is checked against the region registered with
//! `crate::verif::region_set` (bounds) before it is performed.
#![allow(non_camel_case_types, missing_docs, dead_code)]

#[inline(always)]
unsafe fn checked_load16(ptr: *const u8, align: usize) -> [u8; 16] {
    let mut v = [0u8; 16];
    #[cfg(memchr_verif)]
    let ok = crate::verif::region_check(ptr, 16, align);
    #[cfg(not(memchr_verif))]
    let ok = {
        let _ = align;
        true
    };
    if ok {
        core::ptr::copy_nonoverlapping(ptr, v.as_mut_ptr(), 16);
    }
    v
}

pub mod aarch64 {
    #[derive(Clone, Copy, Debug)]
    pub struct uint8x16_t(pub [u8; 16]);
    #[derive(Clone, Copy, Debug)]
    pub struct uint8x8_t(pub [u8; 8]);
    #[derive(Clone, Copy, Debug)]
    pub struct uint16x8_t(pub [u16; 8]);
    #[derive(Clone, Copy, Debug)]
    pub struct uint64x1_t(pub u64);
    #[derive(Clone, Copy, Debug)]
    pub struct uint64x2_t(pub [u64; 2]);

    #[inline(always)]
    pub unsafe fn vdupq_n_u8(b: u8) -> uint8x16_t {
        uint8x16_t([b; 16])
    }

    #[inline(always)]
    pub unsafe fn vld1q_u8(ptr: *const u8) -> uint8x16_t {
        uint8x16_t(super::checked_load16(ptr, 1))
    }

    #[inline(always)]
    pub unsafe fn vceqq_u8(a: uint8x16_t, b: uint8x16_t) -> uint8x16_t {
        let mut r = [0u8; 16];
        let mut i = 0;
        while i < 16 {
            r[i] = if a.0[i] == b.0[i] { 0xFF } else { 0 };
            i += 1;
        }
        uint8x16_t(r)
    }

    #[inline(always)]
    pub unsafe fn vandq_u8(a: uint8x16_t, b: uint8x16_t) -> uint8x16_t {
        let mut r = [0u8; 16];
        let mut i = 0;
        while i < 16 {
            r[i] = a.0[i] & b.0[i];
            i += 1;
        }
        uint8x16_t(r)
    }

    #[inline(always)]
    pub unsafe fn vorrq_u8(a: uint8x16_t, b: uint8x16_t) -> uint8x16_t {
        let mut r = [0u8; 16];
        let mut i = 0;
        while i < 16 {
            r[i] = a.0[i] | b.0[i];
            i += 1;
        }
        uint8x16_t(r)
    }

    /// Pairwise maximum: the low half folds `a`, the high half folds `b`.
    #[inline(always)]
    pub unsafe fn vpmaxq_u8(a: uint8x16_t, b: uint8x16_t) -> uint8x16_t {
        let mut r = [0u8; 16];
        let mut i = 0;
        while i < 8 {
            r[i] = core::cmp::max(a.0[2 * i], a.0[2 * i + 1]);
            r[8 + i] = core::cmp::max(b.0[2 * i], b.0[2 * i + 1]);
            i += 1;
        }
        uint8x16_t(r)
    }

    #[inline(always)]
    pub unsafe fn vmaxvq_u8(a: uint8x16_t) -> u8 {
        let mut m = 0;
        let mut i = 0;
        while i < 16 {
            m = core::cmp::max(m, a.0[i]);
            i += 1;
        }
        m
    }

    #[inline(always)]
    pub unsafe fn vreinterpretq_u16_u8(a: uint8x16_t) -> uint16x8_t {
        let mut r = [0u16; 8];
        let mut i = 0;
        while i < 8 {
            r[i] = u16::from_le_bytes([a.0[2 * i], a.0[2 * i + 1]]);
            i += 1;
        }
        uint16x8_t(r)
    }

    /// Shift each 16-bit lane right by `n` and keep the low 8 bits.
    #[inline(always)]
    pub unsafe fn vshrn_n_u16(a: uint16x8_t, n: i32) -> uint8x8_t {
        let mut r = [0u8; 8];
        let mut i = 0;
        while i < 8 {
            r[i] = (a.0[i] >> (n as u32)) as u8;
            i += 1;
        }
        uint8x8_t(r)
    }

    #[inline(always)]
    pub unsafe fn vreinterpret_u64_u8(a: uint8x8_t) -> uint64x1_t {
        uint64x1_t(u64::from_le_bytes(a.0))
    }

    #[inline(always)]
    pub unsafe fn vget_lane_u64(a: uint64x1_t, lane: i32) -> u64 {
        assert!(lane == 0);
        a.0
    }

    #[inline(always)]
    pub unsafe fn vreinterpretq_u64_u8(a: uint8x16_t) -> uint64x2_t {
        let mut lo = [0u8; 8];
        let mut hi = [0u8; 8];
        lo.copy_from_slice(&a.0[..8]);
        hi.copy_from_slice(&a.0[8..]);
        uint64x2_t([u64::from_le_bytes(lo), u64::from_le_bytes(hi)])
    }

    #[inline(always)]
    pub unsafe fn vgetq_lane_u64(a: uint64x2_t, lane: i32) -> u64 {
        a.0[lane as usize]
    }
}

pub mod wasm32 {
    /// 16-byte aligned, so that `*ptr.cast::<v128>()` is an aligned load that
    /// rustc's debug pointer-alignment check verifies.
    #[derive(Clone, Copy, Debug)]
    #[repr(C, align(16))]
    pub struct v128(pub [u8; 16]);

    #[inline(always)]
    pub fn u8x16_splat(b: u8) -> v128 {
        v128([b; 16])
    }

    /// `v128.load`: no alignment requirement.
    #[inline(always)]
    pub unsafe fn v128_load(ptr: *const v128) -> v128 {
        v128(super::checked_load16(ptr as *const u8, 1))
    }

    #[inline(always)]
    pub fn u8x16_bitmask(a: v128) -> u16 {
        let mut m = 0u16;
        let mut i = 0;
        while i < 16 {
            m |= ((a.0[i] >> 7) as u16) << i;
            i += 1;
        }
        m
    }

    #[inline(always)]
    pub fn u8x16_eq(a: v128, b: v128) -> v128 {
        let mut r = [0u8; 16];
        let mut i = 0;
        while i < 16 {
            r[i] = if a.0[i] == b.0[i] { 0xFF } else { 0 };
            i += 1;
        }
        v128(r)
    }

    #[inline(always)]
    pub fn v128_and(a: v128, b: v128) -> v128 {
        let mut r = [0u8; 16];
        let mut i = 0;
        while i < 16 {
            r[i] = a.0[i] & b.0[i];
            i += 1;
        }
        v128(r)
    }

    #[inline(always)]
    pub fn v128_or(a: v128, b: v128) -> v128 {
        let mut r = [0u8; 16];
        let mut i = 0;
        while i < 16 {
            r[i] = a.0[i] | b.0[i];
            i += 1;
        }
        v128(r)
    }

    #[inline(always)]
    pub fn v128_any_true(a: v128) -> bool {
        let mut i = 0;
        while i < 16 {
            if a.0[i] != 0 {
                return true;
            }
            i += 1;
        }
        false
    }
}
