//! Emulated NEON and wasm simd128 intrinsics, in plain lane-wise Rust.
//!
//! This file is copied into a cfg-rewritten scratch copy of the memchr
//! sources (see rewrite.py), where `core::arch::aarch64` and
//! `core::arch::wasm32` are replaced by `crate::emu::aarch64` and
//! `crate::emu::wasm32`. Only the intrinsics the crate uses are provided.
//! Every vector load is checked against the region registered with
//! `crate::verif::region_set` (bounds) before it is performed.
#![allow(non_camel_case_types, missing_docs, dead_code)]

#[inline(always)]
unsafe fn checked_load16(ptr: *const u8, align: usize) -> [u8; 16] {
    let mut v = [0u8; 16];
    #[cfg(memchr_verif)]
    let ok = crate::verif::region_check(ptr, 16, align);
    #[cfg(not(memchr_verif))]
    let ok = {
        let _ = align;
        true
    };
    if ok {
        core::ptr::copy_nonoverlapping(ptr, v.as_mut_ptr(), 16);
    }
    v
}

pub mod aarch64 {
    #[derive(Clone, Copy, Debug)]
    pub struct uint8x16_t(pub [u8; 16]);
    #[derive(Clone, Copy, Debug)]
    pub struct uint8x8_t(pub [u8; 8]);
    #[derive(Clone, Copy, Debug)]
    pub struct uint16x8_t(pub [u16; 8]);
    #[derive(Clone, Copy, Debug)]
    pub struct uint64x1_t(pub u64);
    #[derive(Clone, Copy, Debug)]
    pub struct uint64x2_t(pub [u64; 2]);

    #[inline(always)]
    pub unsafe fn vdupq_n_u8(b: u8) -> uint8x16_t {
        uint8x16_t([b; 16])
    }

    #[inline(always)]
    pub unsafe fn vld1q_u8(ptr: *const u8) -> uint8x16_t {
        uint8x16_t(super::checked_load16(ptr, 1))
    }

    #[inline(always)]
    pub unsafe fn vceqq_u8(a: uint8x16_t, b: uint8x16_t) -> uint8x16_t {
        let mut r = [0u8; 16];
        let mut i = 0;
        while i < 16 {
            r[i] = if a.0[i] == b.0[i] { 0xFF } else { 0 };
            i += 1;
        }
        uint8x16_t(r)
    }

    #[inline(always)]
    pub unsafe fn vandq_u8(a: uint8x16_t, b: uint8x16_t) -> uint8x16_t {
        let mut r = [0u8; 16];
        let mut i = 0;
        while i < 16 {
            r[i] = a.0[i] & b.0[i];
            i += 1;
        }
        uint8x16_t(r)
    }

    #[inline(always)]
    pub unsafe fn vorrq_u8(a: uint8x16_t, b: uint8x16_t) -> uint8x16_t {
        let mut r = [0u8; 16];
        let mut i = 0;
        while i < 16 {
            r[i] = a.0[i] | b.0[i];
            i += 1;
        }
        uint8x16_t(r)
    }

    /// Pairwise maximum: the low half folds `a`, the high half folds `b`.
    #[inline(always)]
    pub unsafe fn vpmaxq_u8(a: uint8x16_t, b: uint8x16_t) -> uint8x16_t {
        let mut r = [0u8; 16];
        let mut i = 0;
        while i < 8 {
            r[i] = core::cmp::max(a.0[2 * i], a.0[2 * i + 1]);
            r[8 + i] = core::cmp::max(b.0[2 * i], b.0[2 * i + 1]);
            i += 1;
        }
        uint8x16_t(r)
    }

    #[inline(always)]
    pub unsafe fn vmaxvq_u8(a: uint8x16_t) -> u8 {
        let mut m = 0;
        let mut i = 0;
        while i < 16 {
            m = core::cmp::max(m, a.0[i]);
            i += 1;
        }
        m
    }

    #[inline(always)]
    pub unsafe fn vreinterpretq_u16_u8(a: uint8x16_t) -> uint16x8_t {
        let mut r = [0u16; 8];
        let mut i = 0;
        while i < 8 {
            r[i] = u16::from_le_bytes([a.0[2 * i], a.0[2 * i + 1]]);
            i += 1;
        }
        uint16x8_t(r)
    }

    /// Shift each 16-bit lane right by `n` and keep the low 8 bits.
    #[inline(always)]
    pub unsafe fn vshrn_n_u16(a: uint16x8_t, n: i32) -> uint8x8_t {
        let mut r = [0u8; 8];
        let mut i = 0;
        while i < 8 {
            r[i] = (a.0[i] >> (n as u32)) as u8;
            i += 1;
        }
        uint8x8_t(r)
    }

    #[inline(always)]
    pub unsafe fn vreinterpret_u64_u8(a: uint8x8_t) -> uint64x1_t {
        uint64x1_t(u64::from_le_bytes(a.0))
    }

    #[inline(always)]
    pub unsafe fn vget_lane_u64(a: uint64x1_t, lane: i32) -> u64 {
        assert!(lane == 0);
        a.0
    }

    #[inline(always)]
    pub unsafe fn vreinterpretq_u64_u8(a: uint8x16_t) -> uint64x2_t {
        let mut lo = [0u8; 8];
        let mut hi = [0u8; 8];
        lo.copy_from_slice(&a.0[..8]);
        hi.copy_from_slice(&a.0[8..]);
        uint64x2_t([u64::from_le_bytes(lo), u64::from_le_bytes(hi)])
    }

    #[inline(always)]
    pub unsafe fn vgetq_lane_u64(a: uint64x2_t, lane: i32) -> u64 {
        a.0[lane as usize]
    }

    // ---- further intrinsics a refactoring of the NEON code might plausibly use ----
    #[derive(Clone, Copy, Debug)]
    pub struct uint32x4_t(pub [u32; 4]);
    #[derive(Clone, Copy, Debug)]
    pub struct uint32x2_t(pub [u32; 2]);
    #[derive(Clone, Copy, Debug)]
    pub struct uint16x4_t(pub [u16; 4]);

    #[inline(always)]
    fn map2(a: uint8x16_t, b: uint8x16_t, f: impl Fn(u8, u8) -> u8) -> uint8x16_t {
        let mut r = [0u8; 16];
        let mut i = 0;
        while i < 16 {
            r[i] = f(a.0[i], b.0[i]);
            i += 1;
        }
        uint8x16_t(r)
    }

    #[inline(always)]
    pub unsafe fn vmaxq_u8(a: uint8x16_t, b: uint8x16_t) -> uint8x16_t {
        map2(a, b, |x, y| if x > y { x } else { y })
    }
    #[inline(always)]
    pub unsafe fn vminq_u8(a: uint8x16_t, b: uint8x16_t) -> uint8x16_t {
        map2(a, b, |x, y| if x < y { x } else { y })
    }
    #[inline(always)]
    pub unsafe fn veorq_u8(a: uint8x16_t, b: uint8x16_t) -> uint8x16_t {
        map2(a, b, |x, y| x ^ y)
    }
    #[inline(always)]
    pub unsafe fn vbicq_u8(a: uint8x16_t, b: uint8x16_t) -> uint8x16_t {
        map2(a, b, |x, y| x & !y)
    }
    #[inline(always)]
    pub unsafe fn vmvnq_u8(a: uint8x16_t) -> uint8x16_t {
        map2(a, a, |x, _| !x)
    }
    #[inline(always)]
    pub unsafe fn vtstq_u8(a: uint8x16_t, b: uint8x16_t) -> uint8x16_t {
        map2(a, b, |x, y| if x & y != 0 { 0xFF } else { 0 })
    }
    #[inline(always)]
    pub unsafe fn vceqzq_u8(a: uint8x16_t) -> uint8x16_t {
        map2(a, a, |x, _| if x == 0 { 0xFF } else { 0 })
    }
    #[inline(always)]
    pub unsafe fn vcgtq_u8(a: uint8x16_t, b: uint8x16_t) -> uint8x16_t {
        map2(a, b, |x, y| if x > y { 0xFF } else { 0 })
    }
    #[inline(always)]
    pub unsafe fn vcntq_u8(a: uint8x16_t) -> uint8x16_t {
        map2(a, a, |x, _| x.count_ones() as u8)
    }
    #[inline(always)]
    pub unsafe fn vshrq_n_u8(a: uint8x16_t, n: i32) -> uint8x16_t {
        map2(a, a, |x, _| if n >= 8 { 0 } else { x >> (n as u32) })
    }
    #[inline(always)]
    pub unsafe fn vaddq_u8(a: uint8x16_t, b: uint8x16_t) -> uint8x16_t {
        map2(a, b, |x, y| x.wrapping_add(y))
    }
    #[inline(always)]
    pub unsafe fn vsubq_u8(a: uint8x16_t, b: uint8x16_t) -> uint8x16_t {
        map2(a, b, |x, y| x.wrapping_sub(y))
    }
    /// Pairwise add: low half folds `a`, high half folds `b`.
    #[inline(always)]
    pub unsafe fn vpaddq_u8(a: uint8x16_t, b: uint8x16_t) -> uint8x16_t {
        let mut r = [0u8; 16];
        let mut i = 0;
        while i < 8 {
            r[i] = a.0[2 * i].wrapping_add(a.0[2 * i + 1]);
            r[8 + i] = b.0[2 * i].wrapping_add(b.0[2 * i + 1]);
            i += 1;
        }
        uint8x16_t(r)
    }
    #[inline(always)]
    pub unsafe fn vpminq_u8(a: uint8x16_t, b: uint8x16_t) -> uint8x16_t {
        let mut r = [0u8; 16];
        let mut i = 0;
        while i < 8 {
            r[i] = core::cmp::min(a.0[2 * i], a.0[2 * i + 1]);
            r[8 + i] = core::cmp::min(b.0[2 * i], b.0[2 * i + 1]);
            i += 1;
        }
        uint8x16_t(r)
    }
    #[inline(always)]
    pub unsafe fn vminvq_u8(a: uint8x16_t) -> u8 {
        let mut m = 255;
        let mut i = 0;
        while i < 16 {
            m = core::cmp::min(m, a.0[i]);
            i += 1;
        }
        m
    }
    #[inline(always)]
    pub unsafe fn vaddvq_u8(a: uint8x16_t) -> u8 {
        let mut m = 0u8;
        let mut i = 0;
        while i < 16 {
            m = m.wrapping_add(a.0[i]);
            i += 1;
        }
        m
    }
    #[inline(always)]
    pub unsafe fn vaddlvq_u8(a: uint8x16_t) -> u16 {
        let mut m = 0u16;
        let mut i = 0;
        while i < 16 {
            m += a.0[i] as u16;
            i += 1;
        }
        m
    }
    #[inline(always)]
    pub unsafe fn vgetq_lane_u8(a: uint8x16_t, lane: i32) -> u8 {
        a.0[lane as usize]
    }
    #[inline(always)]
    pub unsafe fn vget_low_u8(a: uint8x16_t) -> uint8x8_t {
        let mut r = [0u8; 8];
        r.copy_from_slice(&a.0[..8]);
        uint8x8_t(r)
    }
    #[inline(always)]
    pub unsafe fn vget_high_u8(a: uint8x16_t) -> uint8x8_t {
        let mut r = [0u8; 8];
        r.copy_from_slice(&a.0[8..]);
        uint8x8_t(r)
    }
    #[inline(always)]
    pub unsafe fn vorr_u8(a: uint8x8_t, b: uint8x8_t) -> uint8x8_t {
        let mut r = [0u8; 8];
        let mut i = 0;
        while i < 8 {
            r[i] = a.0[i] | b.0[i];
            i += 1;
        }
        uint8x8_t(r)
    }
    #[inline(always)]
    pub unsafe fn vreinterpretq_u32_u8(a: uint8x16_t) -> uint32x4_t {
        let mut r = [0u32; 4];
        let mut i = 0;
        while i < 4 {
            r[i] = u32::from_le_bytes([a.0[4 * i], a.0[4 * i + 1], a.0[4 * i + 2], a.0[4 * i + 3]]);
            i += 1;
        }
        uint32x4_t(r)
    }
    #[inline(always)]
    pub unsafe fn vgetq_lane_u32(a: uint32x4_t, lane: i32) -> u32 {
        a.0[lane as usize]
    }
    #[inline(always)]
    pub unsafe fn vmaxvq_u32(a: uint32x4_t) -> u32 {
        let mut m = 0;
        let mut i = 0;
        while i < 4 {
            m = core::cmp::max(m, a.0[i]);
            i += 1;
        }
        m
    }
    #[inline(always)]
    pub unsafe fn vgetq_lane_u16(a: uint16x8_t, lane: i32) -> u16 {
        a.0[lane as usize]
    }
    #[inline(always)]
    pub unsafe fn vreinterpretq_u8_u16(a: uint16x8_t) -> uint8x16_t {
        let mut r = [0u8; 16];
        let mut i = 0;
        while i < 8 {
            let b = a.0[i].to_le_bytes();
            r[2 * i] = b[0];
            r[2 * i + 1] = b[1];
            i += 1;
        }
        uint8x16_t(r)
    }
    #[inline(always)]
    pub unsafe fn vreinterpretq_u8_u64(a: uint64x2_t) -> uint8x16_t {
        let mut r = [0u8; 16];
        r[..8].copy_from_slice(&a.0[0].to_le_bytes());
        r[8..].copy_from_slice(&a.0[1].to_le_bytes());
        uint8x16_t(r)
    }
    #[inline(always)]
    pub unsafe fn vreinterpret_u32_u8(a: uint8x8_t) -> uint32x2_t {
        uint32x2_t([u32::from_le_bytes([a.0[0], a.0[1], a.0[2], a.0[3]]), u32::from_le_bytes([a.0[4], a.0[5], a.0[6], a.0[7]])])
    }
    #[inline(always)]
    pub unsafe fn vget_lane_u32(a: uint32x2_t, lane: i32) -> u32 {
        a.0[lane as usize]
    }
    #[inline(always)]
    pub unsafe fn vget_lane_u8(a: uint8x8_t, lane: i32) -> u8 {
        a.0[lane as usize]
    }
    #[inline(always)]
    pub unsafe fn vshrn_n_u32(a: uint32x4_t, n: i32) -> uint16x4_t {
        let mut r = [0u16; 4];
        let mut i = 0;
        while i < 4 {
            r[i] = (a.0[i] >> (n as u32)) as u16;
            i += 1;
        }
        uint16x4_t(r)
    }
    #[inline(always)]
    pub unsafe fn vmovn_u16(a: uint16x8_t) -> uint8x8_t {
        let mut r = [0u8; 8];
        let mut i = 0;
        while i < 8 {
            r[i] = a.0[i] as u8;
            i += 1;
        }
        uint8x8_t(r)
    }
    /// Unaligned-tolerant 16-byte load through a typed pointer (plain deref in the crate would be `vld1q_u8`).
    #[inline(always)]
    pub unsafe fn vld1q_dup_u8(ptr: *const u8) -> uint8x16_t {
        let mut v = [0u8; 1];
        #[cfg(memchr_verif)]
        let ok = crate::verif::region_check(ptr, 1, 1);
        #[cfg(not(memchr_verif))]
        let ok = true;
        if ok {
            v[0] = *ptr;
        }
        uint8x16_t([v[0]; 16])
    }
}

pub mod wasm32 {
    /// 16-byte aligned, so that `*ptr.cast::<v128>()` is an aligned load that
    /// rustc's debug pointer-alignment check verifies.
    #[derive(Clone, Copy, Debug)]
    #[repr(C, align(16))]
    pub struct v128(pub [u8; 16]);

    #[inline(always)]
    pub fn u8x16_splat(b: u8) -> v128 {
        v128([b; 16])
    }

    /// `v128.load`: no alignment requirement.
    #[inline(always)]
    pub unsafe fn v128_load(ptr: *const v128) -> v128 {
        v128(super::checked_load16(ptr as *const u8, 1))
    }

    #[inline(always)]
    pub fn u8x16_bitmask(a: v128) -> u16 {
        let mut m = 0u16;
        let mut i = 0;
        while i < 16 {
            m |= ((a.0[i] >> 7) as u16) << i;
            i += 1;
        }
        m
    }

    #[inline(always)]
    pub fn u8x16_eq(a: v128, b: v128) -> v128 {
        let mut r = [0u8; 16];
        let mut i = 0;
        while i < 16 {
            r[i] = if a.0[i] == b.0[i] { 0xFF } else { 0 };
            i += 1;
        }
        v128(r)
    }

    #[inline(always)]
    pub fn v128_and(a: v128, b: v128) -> v128 {
        let mut r = [0u8; 16];
        let mut i = 0;
        while i < 16 {
            r[i] = a.0[i] & b.0[i];
            i += 1;
        }
        v128(r)
    }

    #[inline(always)]
    pub fn v128_or(a: v128, b: v128) -> v128 {
        let mut r = [0u8; 16];
        let mut i = 0;
        while i < 16 {
            r[i] = a.0[i] | b.0[i];
            i += 1;
        }
        v128(r)
    }

    #[inline(always)]
    pub fn v128_any_true(a: v128) -> bool {
        let mut i = 0;
        while i < 16 {
            if a.0[i] != 0 {
                return true;
            }
            i += 1;
        }
        false
    }

    // ---- further intrinsics ----
    #[inline(always)]
    pub fn v128_xor(a: v128, b: v128) -> v128 {
        let mut r = [0u8; 16];
        let mut i = 0;
        while i < 16 {
            r[i] = a.0[i] ^ b.0[i];
            i += 1;
        }
        v128(r)
    }
    #[inline(always)]
    pub fn v128_not(a: v128) -> v128 {
        let mut r = [0u8; 16];
        let mut i = 0;
        while i < 16 {
            r[i] = !a.0[i];
            i += 1;
        }
        v128(r)
    }
    #[inline(always)]
    pub fn v128_andnot(a: v128, b: v128) -> v128 {
        let mut r = [0u8; 16];
        let mut i = 0;
        while i < 16 {
            r[i] = a.0[i] & !b.0[i];
            i += 1;
        }
        v128(r)
    }
    #[inline(always)]
    pub fn u8x16_ne(a: v128, b: v128) -> v128 {
        let mut r = [0u8; 16];
        let mut i = 0;
        while i < 16 {
            r[i] = if a.0[i] != b.0[i] { 0xFF } else { 0 };
            i += 1;
        }
        v128(r)
    }
    #[inline(always)]
    pub fn i8x16_eq(a: v128, b: v128) -> v128 {
        u8x16_eq(a, b)
    }
    #[inline(always)]
    pub fn i8x16_splat(b: i8) -> v128 {
        v128([b as u8; 16])
    }
    #[inline(always)]
    pub fn i8x16_bitmask(a: v128) -> u16 {
        u8x16_bitmask(a)
    }
    #[inline(always)]
    pub fn u8x16_all_true(a: v128) -> bool {
        let mut i = 0;
        while i < 16 {
            if a.0[i] == 0 {
                return false;
            }
            i += 1;
        }
        true
    }
    #[inline(always)]
    pub fn i8x16_all_true(a: v128) -> bool {
        u8x16_all_true(a)
    }
    #[inline(always)]
    pub fn u8x16_max(a: v128, b: v128) -> v128 {
        let mut r = [0u8; 16];
        let mut i = 0;
        while i < 16 {
            r[i] = core::cmp::max(a.0[i], b.0[i]);
            i += 1;
        }
        v128(r)
    }
    #[inline(always)]
    pub fn u16x8_bitmask(a: v128) -> u8 {
        let mut m = 0u8;
        let mut i = 0;
        while i < 8 {
            m |= (a.0[2 * i + 1] >> 7) << i;
            i += 1;
        }
        m
    }
    #[inline(always)]
    pub fn u64x2_extract_lane<const L: usize>(a: v128) -> u64 {
        let mut b = [0u8; 8];
        b.copy_from_slice(&a.0[8 * L..8 * L + 8]);
        u64::from_le_bytes(b)
    }
}
