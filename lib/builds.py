"""Building the harness in its configurations.

N-auto / N-sse2 / N-fb     native build of /verif/harness (one binary, CPU level forced at run time)
E-neon / E-wasm / E-none   the same harness built against a cfg-rewritten scratch copy of the
                           repository with emulated intrinsics (emu/rewrite.py); the scratch copy
                           lives outside /repo and /verif and is removed right after the build
X-nostd / X-alloc / X-avx2ct / X-plain   `mvexec` only, feature / flag axis of C09
M-<target>                 `mvexec` interpreted by Miri for that target

Build caches (cargo target directories) are kept under /verif/harness/target*.
"""
import os, subprocess, shutil, fcntl, hashlib, sys, time

VERIF = os.path.dirname(os.path.dirname(os.path.abspath(__file__)))
HARNESS = os.path.join(VERIF, "harness")
BASE_FLAGS = "--cfg memchr_verif"
ENV_BASE = {"CARGO_NET_OFFLINE": "true"}

EMU_CFG = {
    "E-neon": '--cfg memchr_emu --cfg memchr_emu_arch="aarch64" --cfg memchr_emu_feature="neon"',
    "E-wasm": '--cfg memchr_emu --cfg memchr_emu_arch="wasm32" --cfg memchr_emu_feature="simd128"',
    "E-none": '--cfg memchr_emu --cfg memchr_emu_arch="none"',
    # aarch64 WITHOUT the neon target feature (soft-float targets): the dispatcher's fallback arm
    "E-a64nn": '--cfg memchr_emu --cfg memchr_emu_arch="aarch64"',
}
LEVELS = {"N-auto": "auto", "N-sse2": "sse2", "N-fb": "fb"}
# the same harness without debug assertions / overflow checks (what a release build of a user really runs): C05
LEVELS_PLAIN = {"N-plain-auto": "auto", "N-plain-sse2": "sse2", "N-plain-fb": "fb"}
EMU_PLAIN = {"E-neon-plain": "E-neon", "E-wasm-plain": "E-wasm", "E-none-plain": "E-none"}

MIRI_TARGETS = {
    "M-x86": ("x86_64-unknown-linux-gnu", ""),
    "M-avx2": ("x86_64-unknown-linux-gnu", "-C target-feature=+avx2"),
    "M-a64": ("aarch64-unknown-linux-gnu", ""),
    "M-i686": ("i686-unknown-linux-gnu", ""),
    "M-s390x": ("s390x-unknown-linux-gnu", ""),
}
MIRI_SYSROOT = os.path.join(VERIF, ".cache", "miri")
MIRI_FLAGS = "-Zmiri-disable-isolation -Zmiri-disable-stacked-borrows -Zmiri-permissive-provenance"

TSAN = {"T-tsan": "x86_64-unknown-linux-gnu"}

X_CFG = {
    # name: (cargo feature args, extra rustflags, profile)
    "X-nostd": (["--no-default-features"], "", "release"),
    "X-alloc": (["--no-default-features", "--features", "alloc"], "", "release"),
    "X-avx2ct": ([], "-C target-feature=+avx2", "release"),
    "X-plain": ([], "", "plain"),
}


def env_with(**kw):
    e = dict(os.environ)
    e.update(ENV_BASE)
    e.update(kw)
    return e


def sh(argv, env, cwd, log, timeout=3600):
    p = subprocess.run(argv, env=env, cwd=cwd, stdout=subprocess.PIPE, stderr=subprocess.STDOUT, timeout=timeout)
    return p.returncode, p.stdout.decode("utf-8", "replace")


def stage_workspace(dest, memchr_path):
    """A copy of the harness workspace whose manifests point at memchr_path;
    sources are symlinked, so edits of the harness are picked up."""
    os.makedirs(dest, exist_ok=True)
    for sub in ("core", "pbt"):
        os.makedirs(os.path.join(dest, sub), exist_ok=True)
        src = os.path.join(HARNESS, sub, "src")
        link = os.path.join(dest, sub, "src")
        if os.path.islink(link) or os.path.exists(link):
            if os.path.islink(link):
                os.unlink(link)
            else:
                shutil.rmtree(link)
        os.symlink(src, link)
        man = open(os.path.join(HARNESS, sub, "Cargo.toml")).read().replace('path = "/repo"', f'path = "{memchr_path}"')
        write_keep_mtime(os.path.join(dest, sub, "Cargo.toml"), man, os.path.join(HARNESS, sub, "Cargo.toml"))
    for f in ("Cargo.toml", "Cargo.lock"):
        write_keep_mtime(os.path.join(dest, f), open(os.path.join(HARNESS, f)).read(), os.path.join(HARNESS, f))
    os.makedirs(os.path.join(dest, ".cargo"), exist_ok=True)
    write_keep_mtime(os.path.join(dest, ".cargo", "config.toml"), "[net]\noffline = true\n", os.path.join(HARNESS, "Cargo.toml"))


def write_keep_mtime(path, text, like):
    old = open(path).read() if os.path.exists(path) else None
    if old != text:
        with open(path, "w") as f:
            f.write(text)
    m = os.path.getmtime(like)
    os.utime(path, (m, m))


def scratch_root(repo):
    h = hashlib.sha1(os.path.abspath(repo).encode()).hexdigest()[:10]
    return os.path.join(os.environ.get("VERIF_SCRATCH", "/tmp"), f"memchr-verif-scratch-{h}")


class Lock:
    def __init__(self, repo="/repo"):
        os.makedirs(os.path.join(VERIF, ".cache"), exist_ok=True)
        h = hashlib.sha1(os.path.abspath(repo).encode()).hexdigest()[:10]
        self.f = open(os.path.join(VERIF, ".cache", f"build-{h}.lock"), "w")

    def __enter__(self):
        fcntl.flock(self.f, fcntl.LOCK_EX)
        return self

    def __exit__(self, *a):
        fcntl.flock(self.f, fcntl.LOCK_UN)
        self.f.close()


def copy_bins(target_dir, profile, run_dir, tag, triple=None):
    out = {}
    base = os.path.join(target_dir, triple, profile) if triple else os.path.join(target_dir, profile)
    for b in ("mv", "mvexec"):
        src = os.path.join(base, b)
        if os.path.exists(src):
            dst = os.path.join(run_dir, f"{b}-{tag}")
            shutil.copy2(src, dst)
            out[b] = dst
    return out


def ensure(configs, run_dir, repo, log):
    """Build what `configs` need. Returns ({config: bins}, {config: failure text})."""
    bins, notes = {}, {}
    configs = list(configs)
    default_repo = os.path.abspath(repo) == "/repo"
    with Lock(repo):
        need_native = [c for c in configs if c in LEVELS]
        need_native_plain = [c for c in configs if c in LEVELS_PLAIN]
        need_emu = [c for c in configs if c in EMU_CFG or c in EMU_PLAIN]
        need_x = [c for c in configs if c in X_CFG]
        need_miri = [c for c in configs if c in MIRI_TARGETS]
        need_tsan = [c for c in configs if c in TSAN]
        scratch = scratch_root(repo)
        try:
            ws = HARNESS
            tdir_suffix = ""
            if not default_repo:
                ws = os.path.join(scratch, "harness-native")
                stage_workspace(ws, os.path.abspath(repo))
                tdir_suffix = "-" + hashlib.sha1(os.path.abspath(repo).encode()).hexdigest()[:8]
            if need_native:
                tdir = os.path.join(HARNESS, "target" + tdir_suffix) if default_repo else os.path.join(scratch, "target")
                rc, out = sh(["cargo", "build", "--release"], env_with(RUSTFLAGS=BASE_FLAGS, CARGO_TARGET_DIR=tdir), ws, log)
                if rc != 0:
                    for c in need_native:
                        notes[c] = out
                else:
                    b = copy_bins(tdir, "release", run_dir, "native")
                    for c in need_native:
                        bins[c] = dict(b, level=LEVELS[c])
            if need_native_plain:
                tdir = os.path.join(HARNESS, "target" + tdir_suffix) if default_repo else os.path.join(scratch, "target")
                rc, out = sh(["cargo", "build", "--profile", "plain"], env_with(RUSTFLAGS=BASE_FLAGS, CARGO_TARGET_DIR=tdir), ws, log)
                if rc != 0:
                    for c in need_native_plain:
                        notes[c] = out
                else:
                    b = copy_bins(tdir, "plain", run_dir, "native-plain")
                    for c in need_native_plain:
                        bins[c] = dict(b, level=LEVELS_PLAIN[c])
            for c in need_x:
                feats, flags, profile = X_CFG[c]
                tdir = os.path.join(HARNESS, "target-x") if default_repo else os.path.join(scratch, "target-x")
                argv = ["cargo", "build", "--profile", profile, "-p", "mvcore", "--bin", "mvexec"] + feats
                rc, out = sh(argv, env_with(RUSTFLAGS=(BASE_FLAGS + " " + flags).strip(), CARGO_TARGET_DIR=tdir), ws, log)
                if rc != 0:
                    notes[c] = out
                else:
                    bins[c] = copy_bins(tdir, profile, run_dir, c)
            if need_emu:
                emu_crate = os.path.join(scratch, "memchr-emu")
                rc, out = sh([sys.executable, os.path.join(VERIF, "emu", "rewrite.py"), repo, emu_crate], env_with(), VERIF, log)
                if rc != 0:
                    for c in need_emu:
                        notes[c] = "rewrite failed: " + out
                else:
                    ews = os.path.join(scratch, "harness-emu")
                    stage_workspace(ews, emu_crate)
                    tdir = os.path.join(HARNESS, "target-emu") if default_repo else os.path.join(scratch, "target-emu")
                    for c in need_emu:
                        profile = "plain" if c in EMU_PLAIN else "release"
                        flags = EMU_CFG[EMU_PLAIN.get(c, c)]
                        rc, out = sh(["cargo", "build", "--profile", profile],
                                     env_with(RUSTFLAGS=BASE_FLAGS + " " + flags, CARGO_TARGET_DIR=tdir), ews, log)
                        if rc != 0:
                            notes[c] = out
                        else:
                            bins[c] = dict(copy_bins(tdir, profile, run_dir, c), level="auto")
            for c in need_tsan:
                triple = TSAN[c]
                tdir = os.path.join(HARNESS, "target-tsan") if default_repo else os.path.join(scratch, "target-tsan")
                argv = ["cargo", "+nightly", "build", "-Zbuild-std", "--target", triple, "--release", "-p", "mvcore", "--bin", "mvexec"]
                rc, out = sh(argv, env_with(RUSTFLAGS=BASE_FLAGS + " -Zsanitizer=thread", CARGO_TARGET_DIR=tdir), ws, log)
                if rc != 0:
                    notes[c] = out
                else:
                    bins[c] = copy_bins(tdir, "release", run_dir, c, triple=triple)
            for c in need_miri:
                triple, flags = MIRI_TARGETS[c]
                tdir = os.path.join(HARNESS, "target-miri") if default_repo else os.path.join(scratch, "target-miri")
                env = env_with(RUSTFLAGS=(BASE_FLAGS + " " + flags).strip(), CARGO_TARGET_DIR=tdir,
                               MIRI_SYSROOT=os.path.join(MIRI_SYSROOT, triple), MIRIFLAGS=MIRI_FLAGS)
                if not os.path.isdir(env["MIRI_SYSROOT"]):
                    rc, out = miri_setup(triple, log)
                    if rc != 0:
                        notes[c] = "miri sysroot: " + out
                        continue
                # `cargo miri run` builds and runs; here we only make sure it builds (a no-op case file)
                empty = os.path.join(run_dir, "empty.cases")
                open(empty, "wb").close()
                argv = ["cargo", "+nightly", "miri", "run", "--release", "-q", "-p", "mvcore", "--bin", "mvexec", "--target", triple,
                        "--", "cases", empty, os.path.join(run_dir, f"empty-{c}.out")]
                rc, out = sh(argv, env, ws, log)
                if rc != 0:
                    notes[c] = out
                else:
                    bins[c] = {"miri": True, "triple": triple, "env": {k: env[k] for k in ("RUSTFLAGS", "CARGO_TARGET_DIR", "MIRI_SYSROOT", "MIRIFLAGS")},
                               "cwd": ws}
        finally:
            # the rewritten copy of the repository and staged manifests are scratch data: remove them
            # (the Miri workspace of a non-default repository is needed until the run ends)
            for d in ("memchr-emu", "harness-emu"):
                shutil.rmtree(os.path.join(scratch, d), ignore_errors=True)
            if default_repo:
                shutil.rmtree(scratch, ignore_errors=True)
    return bins, notes


def miri_setup(triple, log):
    env = env_with(MIRI_SYSROOT=os.path.join(MIRI_SYSROOT, triple))
    os.makedirs(env["MIRI_SYSROOT"], exist_ok=True)
    rc, out = sh(["cargo", "+nightly", "miri", "setup", "--target", triple], env, HARNESS, log)
    if rc != 0:
        shutil.rmtree(env["MIRI_SYSROOT"], ignore_errors=True)
    return rc, out


def command(b, cfg, stage, prop, tier, seed, sh_i, sh_n, out, run_dir):
    """argv/env/cwd of one stage process."""
    if stage.get("kind", "mv") == "mv":
        argv = [b["mv"], stage["cmd"], "--prop", prop, "--tier", tier, "--seed", str(seed), "--shard", f"{sh_i}/{sh_n}",
                "--level", b.get("level", "auto"), "--out", out] + list(stage.get("args", []))
        if stage.get("needs_mvexec"):
            argv += ["--mvexec", b["mvexec"]]
        return argv, None, None
    raise ValueError("unknown stage kind")


def replay_command(b, cfg, path, run_dir):
    argv = [b["mv"], "replay", "--level", b.get("level", "auto"), path, "--mvexec", b.get("mvexec", "")]
    return argv, None, None


def setup(repo, log):
    t0 = time.time()
    run_dir = os.path.join("/tmp", f"mvsetup-{os.getpid()}")
    os.makedirs(run_dir, exist_ok=True)
    try:
        import plans
        cfgs = sorted({c for p in plans.PLANS.values() for s in p["stages"] for t in ("quick", "thorough") for c in s["configs"](t)})
        bins, notes = ensure(cfgs, run_dir, repo, log)
        for c in cfgs:
            print(("built  " if c in bins else "FAILED ") + c)
        for c, why in notes.items():
            print(f"--- {c}\n{why[-3000:]}")
        print(f"setup took {time.time() - t0:.1f}s")
        return 0 if not notes else 1
    finally:
        shutil.rmtree(run_dir, ignore_errors=True)
