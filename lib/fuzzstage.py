"""Coverage-guided fuzz stage: libFuzzer + AddressSanitizer targets of /verif/fuzzing (fz_bytes, fz_substr).

Each target is a differential test against the naive oracles, so a libFuzzer
"crash" is either an assertion (wrong answer / panic) or an ASan report (read
outside the exact-size heap copies). The saved artifact is the replay file."""
import os, subprocess, shutil, time, hashlib, glob, json, random

VERIF = os.path.dirname(os.path.dirname(os.path.abspath(__file__)))
FUZZ = os.path.join(VERIF, "fuzzing")


def stage_fuzz_dir(repo, run_dir):
    """cargo-fuzz project whose manifests point at `repo` (the project itself for /repo)."""
    if os.path.abspath(repo) == "/repo":
        return FUZZ, os.path.join(FUZZ, "fuzz", "target")
    dst = os.path.join(run_dir, "fuzzing")
    shutil.copytree(FUZZ, dst, ignore=shutil.ignore_patterns("target", "artifacts", "corpus", "coverage"))
    man = os.path.join(dst, "fuzz", "Cargo.toml")
    t = open(man).read().replace('path = "/repo"', f'path = "{os.path.abspath(repo)}"')
    open(man, "w").write(t)
    return dst, os.path.join(dst, "fuzz", "target")


def seed_corpus(path, seed, n=48):
    os.makedirs(path, exist_ok=True)
    rnd = random.Random(seed)
    for i in range(n):
        ln = rnd.choice([8, 40, 100, 200, 400, 700])
        alpha = rnd.choice([b"ab", b"abc", bytes(range(256)), b"a", b"ab\x00\xff"])
        data = bytes(rnd.choice(alpha) for _ in range(ln))
        with open(os.path.join(path, f"seed-{i}"), "wb") as f:
            f.write(data)


def run(stage, prop, tier, seed, repo, run_dir, jobs, log):
    """Returns (fragments, inconclusive)."""
    frags, inconclusive = [], []
    fdir, tdir = stage_fuzz_dir(repo, run_dir)
    env = dict(os.environ, CARGO_NET_OFFLINE="true", RUSTFLAGS="--cfg memchr_verif")
    b = subprocess.run(["cargo", "+nightly", "fuzz", "build"], cwd=fdir, env=env, stdout=subprocess.PIPE, stderr=subprocess.STDOUT)
    if b.returncode != 0:
        print("SKIPPED stage=fuzz reason=build-failed")
        return [], []  # auxiliary stage: skipped, not failed (DESIGN.md sec. 2)
    runs = stage["runs"][tier]
    targets = stage["targets"]
    workers = max(1, min(stage.get("workers", 4), jobs // max(1, len(targets))))
    procs = []
    for t in targets:
        for w in range(workers):
            corpus = os.path.join(run_dir, f"corpus-{t}-{w}")
            if w % 2 == 0:
                seed_corpus(corpus, seed * 100 + w)
            else:
                os.makedirs(corpus, exist_ok=True)  # empty corpus
            art = os.path.join(run_dir, f"artifacts-{t}-{w}") + "/"
            os.makedirs(art, exist_ok=True)
            s = (seed * 1000 + w * 7 + 1) & 0x7FFFFFFF or 1
            argv = ["cargo", "+nightly", "fuzz", "run", t, corpus, "--", f"-runs={runs // workers}", f"-seed={s}", "-max_len=1200", "-len_control=0",
                    f"-artifact_prefix={art}", "-print_final_stats=1"]
            procs.append((t, w, art, subprocess.Popen(argv, cwd=fdir, env=env, stdout=subprocess.PIPE, stderr=subprocess.STDOUT)))
    for t, w, art, p in procs:
        t0 = time.time()
        try:
            out, _ = p.communicate(timeout=stage.get("timeout", 3 * 3600))
        except subprocess.TimeoutExpired:
            p.kill()
            inconclusive.append(f"fuzz {t}/{w}: watchdog")
            continue
        out = out.decode("utf-8", "replace")
        execs = 0
        for line in out.splitlines():
            if line.startswith("stat::number_of_executed_units:"):
                execs = int(line.split(":")[-1])
        f = {"property": prop, "stage": "fuzz-" + t, "config": "F-asan", "shard": f"{w}/{len(procs)}", "seed": seed, "evaluations": execs,
             "nontrivial_enum": 0, "nontrivial_hashed": 0, "classes": {"libFuzzer executions": execs}, "required_classes": [], "samples": [],
             "violations": [], "notes": [], "subspaces": [], "extra": {}, "_wall": time.time() - t0, "_hashes": "/nonexistent"}
        # corpus size = inputs that reached new coverage: counted as distinct non-trivial cases
        cov = 0
        for line in out.splitlines():
            if " cov: " in line and " corp: " in line:
                try:
                    cov = int(line.split(" corp: ")[1].split("/")[0])
                except Exception:
                    pass
        f["nontrivial_enum"] = cov
        f["samples"].append({"stage": "fuzz-" + t, "note": f"{execs} executions, final corpus {cov} inputs (each reached new coverage)", "worker": w})
        arts = glob.glob(art + "crash-*") + glob.glob(art + "oom-*") + glob.glob(art + "timeout-*")
        if p.returncode != 0 and arts:
            a = arts[0]
            keep = os.path.join(os.environ.get("VERIF_REPLAY_DIR", os.path.join(VERIF, "replays")), f"{prop}-fuzz-{t}-{hashlib.sha1(open(a, 'rb').read()).hexdigest()[:12]}")
            os.makedirs(os.path.dirname(keep), exist_ok=True)
            shutil.copy(a, keep)
            tail = "\n".join(out.splitlines()[-40:])
            if os.path.basename(a).startswith(("oom-", "timeout-")):
                inconclusive.append(f"fuzz {t}: {os.path.basename(a)} (resource limit, not a violation)")
            else:
                f["violations"].append({"property": prop, "kind": "fuzz", "config": "F-asan", "impl": t, "op": "fuzz", "artifact": keep, "target": t,
                                        "what": "libFuzzer target failed (assertion against the naive oracle, panic, or AddressSanitizer report)",
                                        "expected": "no failure", "observed": tail[-1500:], "haystack_len": os.path.getsize(a),
                                        "signature": f"{prop}|F-asan|{t}|{hashlib.sha1(open(a, 'rb').read()).hexdigest()}"})
        elif p.returncode != 0:
            inconclusive.append(f"fuzz {t}/{w}: exit {p.returncode}: {out[-400:]}")
        frags.append(f)
    return frags, inconclusive


def replay(artifact, target, repo, run_dir):
    fdir, _ = stage_fuzz_dir(repo, run_dir)
    env = dict(os.environ, CARGO_NET_OFFLINE="true", RUSTFLAGS="--cfg memchr_verif")
    p = subprocess.run(["cargo", "+nightly", "fuzz", "run", target, artifact, "--", "-runs=1"], cwd=fdir, env=env,
                       stdout=subprocess.PIPE, stderr=subprocess.STDOUT)
    return p.returncode, p.stdout.decode("utf-8", "replace")
