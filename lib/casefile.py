"""Case-file stages: generate cases natively, execute them with `mvexec` in
every requested configuration (native levels, feature/flag builds, emulated
back ends, Miri targets), judge natively."""
import os, subprocess, json, time
from concurrent.futures import ThreadPoolExecutor

LEVEL_NUM = {"auto": "0", "sse2": "1", "fb": "2"}


def split_lines(path, k, prefix):
    lines = open(path).read().splitlines()
    out = []
    n = len(lines)
    for i in range(k):
        part = lines[i * n // k:(i + 1) * n // k]
        p = f"{prefix}.{i}"
        with open(p, "w") as f:
            f.write("\n".join(part) + ("\n" if part else ""))
        out.append((p, len(part)))
    return out


def run_exec(cfg, b, cases, out, timeout, log):
    """Runs mvexec over a case file, restarting after an abort. Returns (ok, stderr_tail, aborts)."""
    start = 0
    aborts = 0
    err_tail = ""
    t_end = time.time() + timeout
    while True:
        if b.get("miri"):
            argv = ["cargo", "+nightly", "miri", "run", "--release", "-q", "-p", "mvcore", "--bin", "mvexec", "--target", b["triple"],
                    "--", "cases", cases, out, str(start)]
            env = dict(os.environ)
            env.update({"CARGO_NET_OFFLINE": "true"})
            env.update(b["env"])
            cwd = b["cwd"]
        else:
            argv = [b["mvexec"], "cases", cases, out, str(start), LEVEL_NUM.get(b.get("level", "auto"), "0")]
            env, cwd = None, None
        try:
            p = subprocess.run(argv, env=env, cwd=cwd, stdout=subprocess.PIPE, stderr=subprocess.PIPE, timeout=max(5, t_end - time.time()))
        except subprocess.TimeoutExpired:
            return False, "watchdog", aborts
        txt = open(out).read() if os.path.exists(out) else ""
        if txt.rstrip().endswith("END"):
            return True, err_tail, aborts
        # died in the middle: find the journaled case and resume after it
        begun = [int(l.split()[1]) for l in txt.splitlines() if l.startswith("BEGIN ")]
        if not begun:
            return False, (p.stderr.decode("utf-8", "replace")[-3000:] or f"exit {p.returncode}"), aborts
        aborts += 1
        err_tail = p.stderr.decode("utf-8", "replace")[-4000:]
        with open(out + f".abort{begun[-1]}.stderr", "w") as f:
            f.write(err_tail)
        start = begun[-1] + 1
        if aborts > 20:
            return False, "too many aborts: " + err_tail, aborts


def run(stage, prop, tier, seed, bins, run_dir, jobs, log):
    """Returns (fragments, inconclusive messages, violations_extra)."""
    frags, inconclusive = [], []
    if stage.get("name", "casefile") != "casefile":
        # a second case-file stage of the same plan gets its own directory
        run_dir = os.path.join(run_dir, stage["name"])
        os.makedirs(run_dir, exist_ok=True)
    mv = bins["N-auto"]["mv"] if "N-auto" in bins else None
    if mv is None:
        return frags, ["casefile stage needs the native build"]
    cfgs = [c for c in stage["configs"](tier) if c in bins]
    fast = [c for c in cfgs if not c.startswith("M-")]
    miri = [c for c in cfgs if c.startswith("M-")]
    n_fast = stage["count"][tier]
    n_miri = stage["miri_count"][tier]
    timeout = stage.get("timeout", 1500 if tier == "quick" else 6 * 3600)
    tasks = []  # (group id, case file, cfg, out)
    groups = {}
    if fast and n_fast:
        big = os.path.join(run_dir, "cases-big.txt")
        subprocess.run([mv, "gen-cases", "--prop", prop, "--seed", str(seed), "--out", big, str(n_fast), "full", stage.get("kinds", "BISPEH")], check=True)
        k = stage.get("fast_shards", 8)
        for i, (part, n) in enumerate(split_lines(big, k, big)):
            gid = f"fast{i}"
            groups[gid] = (part, [])
            for c in fast:
                out = os.path.join(run_dir, f"out-{gid}-{c}.txt")
                tasks.append((gid, part, c, out))
    if miri and n_miri:
        per_shard = stage.get("miri_per_shard", 30)
        for c in miri:
            small = os.path.join(run_dir, f"cases-{c}.txt")
            # every Miri target gets its own cases (seed offset by the target's name)
            s2 = seed * 1000 + sum(map(ord, c))
            subprocess.run([mv, "gen-cases", "--prop", prop, "--seed", str(s2), "--out", small, str(n_miri), "tiny", stage.get("kinds", "BISPEH")], check=True)
            k = max(1, n_miri // per_shard)
            for i, (part, n) in enumerate(split_lines(small, k, small)):
                gid = f"{c}-{i}"
                groups[gid] = (part, [])
                tasks.append((gid, part, c, os.path.join(run_dir, f"out-{gid}-{c}.txt")))
                # the same cases natively, for the cross-configuration comparison
                if "N-auto" in bins:
                    tasks.append((gid, part, "N-auto", os.path.join(run_dir, f"out-{gid}-N-auto.txt")))

    def work(t):
        gid, part, c, out = t
        ok, err, aborts = run_exec(c, bins[c], part, out, timeout, log)
        return t, ok, err, aborts

    # Miri tasks first (longest)
    tasks.sort(key=lambda t: 0 if t[2].startswith("M-") else 1)
    with ThreadPoolExecutor(max_workers=jobs) as ex:
        results = list(ex.map(work, tasks))
    for (gid, part, c, out), ok, err, aborts in results:
        if not ok:
            if c.startswith("N-"):
                inconclusive.append(f"casefile: {c} on {os.path.basename(part)} failed: {err[-500:]}")
            else:
                inconclusive.append(f"casefile: {c} on {os.path.basename(part)} did not complete: {err[-800:]}")
            continue
        groups[gid][1].append((c, out))
    # judge every group
    for gid, (part, outs) in groups.items():
        if not outs:
            continue
        frag_path = os.path.join(run_dir, f"casefile-{gid}.json")
        argv = [mv, "judge-cases", "--prop", prop, "--seed", str(seed), "--out", frag_path, part] + [f"{c}={o}" for c, o in outs]
        p = subprocess.run(argv, stdout=subprocess.PIPE, stderr=subprocess.PIPE)
        if os.path.exists(frag_path):
            f = json.load(open(frag_path))
            f["_hashes"] = frag_path + ".hashes"
            f["_wall"] = 0.0
            f["stage"] = stage.get("name", "casefile")
            f["config"] = "+".join(sorted(c for c, _ in outs))
            # attach interpreter diagnostics to abort violations
            for v in f.get("violations", []):
                if v.get("op") == "abort":
                    for c, o in outs:
                        if c == v.get("config"):
                            import glob
                            for ef in glob.glob(o + ".abort*.stderr"):
                                v["diagnostic"] = open(ef).read()[-3000:]
                                break
            frags.append(f)
        else:
            inconclusive.append(f"casefile judge failed for {gid}: {p.stderr.decode('utf-8', 'replace')[-500:]}")
    return frags, inconclusive


def run_miri_threads(stage, prop, tier, seed, bins, run_dir, jobs, log):
    """C15: generated thread programs under Miri with owned, replayable schedules (-Zmiri-seed)."""
    import glob, hashlib
    frags, inconclusive = [], []
    mv = bins["N-auto"]["mv"]
    cfgs = [c for c in stage["configs"](tier) if c in bins and bins[c].get("miri")]
    nprog = stage["programs"][tier]
    nseeds = stage["seeds"][tier]
    pdir = os.path.join(run_dir, "thread-programs")
    subprocess.run([mv, "gen-threads", "--prop", prop, "--seed", str(seed), "--out", pdir, str(nprog)], check=True)
    progs = sorted(glob.glob(os.path.join(pdir, "prog-*.txt")))
    tasks = [(c, p, s) for c in cfgs for p in progs for s in range(nseeds)]

    def work(t):
        c, prog, s = t
        b = bins[c]
        env = dict(os.environ)
        env.update({"CARGO_NET_OFFLINE": "true"})
        env.update(b["env"])
        env["MIRIFLAGS"] = b["env"]["MIRIFLAGS"] + f" -Zmiri-seed={seed * 1000 + s} -Zmiri-preemption-rate=0.2"
        argv = ["cargo", "+nightly", "miri", "run", "--release", "-q", "-p", "mvcore", "--bin", "mvexec", "--target", b["triple"],
                "--", "threads", prog]
        try:
            p = subprocess.run(argv, env=env, cwd=b["cwd"], stdout=subprocess.PIPE, stderr=subprocess.PIPE, timeout=stage.get("timeout", 900))
            return t, p.returncode, p.stdout.decode("utf-8", "replace"), p.stderr.decode("utf-8", "replace")
        except subprocess.TimeoutExpired:
            return t, -9, "", "watchdog"

    with ThreadPoolExecutor(max_workers=jobs) as ex:
        results = list(ex.map(work, tasks))
    by_cfg = {}
    for (c, prog, s), rc, out, err in results:
        f = by_cfg.setdefault(c, {"property": prop, "stage": "miri-schedules", "config": c, "shard": "0/1", "seed": seed, "evaluations": 0,
                                  "nontrivial_enum": 0, "nontrivial_hashed": 0, "classes": {}, "required_classes": [], "samples": [],
                                  "violations": [], "notes": [], "subspaces": [], "extra": {}, "_wall": 0.0, "_hashes": "/nonexistent"})
        text = open(prog).read()
        if rc == 0 and out.startswith("OK"):
            f["evaluations"] += 1
            f["nontrivial_enum"] += 1
            f["classes"]["schedules explored without a report"] = f["classes"].get("schedules explored without a report", 0) + 1
            if len(f["samples"]) < 2:
                f["samples"].append({"stage": "miri-schedules", "program": text.splitlines()[:8], "miri_seed": seed * 1000 + s})
        elif rc == 1 and "MISMATCH" in out or "Undefined Behavior" in err or "Data race" in err or "data race" in err:
            what = out.strip() if "MISMATCH" in out else err[-1500:]
            f["violations"].append({"property": prop, "kind": "miri-threads", "config": c, "impl": "dispatch/finder", "op": "threads",
                                    "program": text, "miri_seed": seed * 1000 + s, "what": what, "expected": "sequential answers, no data race",
                                    "observed": what[:300], "haystack_len": len(text),
                                    "signature": f"{prop}|{c}|miri-threads|{hashlib.sha1(text.encode()).hexdigest()[:16]}|{seed * 1000 + s}"})
        else:
            inconclusive.append(f"miri-schedules {c} seed {s}: exit {rc}: {err[-400:]}")
    frags = list(by_cfg.values())
    return frags, inconclusive


def run_tsan_threads(stage, prop, tier, seed, bins, run_dir, jobs, log):
    """C15 (thorough): the thread programs under ThreadSanitizer; any data-race report is a violation."""
    import glob, hashlib
    frags, inconclusive = [], []
    if "T-tsan" not in bins or "N-auto" not in bins:
        return frags, inconclusive
    mv = bins["N-auto"]["mv"]
    exe = bins["T-tsan"]["mvexec"]
    pdir = os.path.join(run_dir, "tsan-programs")
    subprocess.run([mv, "gen-threads", "--prop", prop, "--seed", str(seed + 77), "--out", pdir, str(stage["programs"][tier])], check=True)
    progs = sorted(glob.glob(os.path.join(pdir, "prog-*.txt")))
    reps = stage["repeats"][tier]
    tasks = [(p, r, lvl) for p in progs for r in range(reps) for lvl in ("0", "1", "2")]

    def work(t):
        prog, r, lvl = t
        try:
            p = subprocess.run([exe, "threads", prog, lvl], stdout=subprocess.PIPE, stderr=subprocess.PIPE, timeout=300,
                               env=dict(os.environ, TSAN_OPTIONS="halt_on_error=0 exitcode=66"))
            return t, p.returncode, p.stdout.decode("utf-8", "replace"), p.stderr.decode("utf-8", "replace")
        except subprocess.TimeoutExpired:
            return t, -9, "", "watchdog"

    with ThreadPoolExecutor(max_workers=jobs) as ex:
        results = list(ex.map(work, tasks))
    f = {"property": prop, "stage": "tsan-threads", "config": "T-tsan", "shard": "0/1", "seed": seed, "evaluations": 0, "nontrivial_enum": 0,
         "nontrivial_hashed": 0, "classes": {}, "required_classes": [], "samples": [], "violations": [], "notes": [], "subspaces": [], "extra": {},
         "_wall": 0.0, "_hashes": "/nonexistent"}
    for (prog, r, lvl), rc, out, err in results:
        text = open(prog).read()
        if "ThreadSanitizer: data race" in err or (rc == 1 and "MISMATCH" in out):
            what = ("ThreadSanitizer: data race\n" + err[-1500:]) if "ThreadSanitizer" in err else out.strip()
            f["violations"].append({"property": prop, "kind": "tsan-threads", "config": "T-tsan", "impl": "dispatch/finder", "op": "threads", "program": text,
                                    "what": what, "expected": "no data race, sequential answers", "observed": what[:300], "haystack_len": len(text),
                                    "level": int(lvl), "signature": f"{prop}|T-tsan|{hashlib.sha1(text.encode()).hexdigest()[:16]}|{lvl}"})
        elif rc == 0:
            f["evaluations"] += 1
            f["nontrivial_enum"] += 1
            if len(f["samples"]) < 2:
                f["samples"].append({"stage": "tsan-threads", "program": text.splitlines()[:8], "forced_level": lvl})
        else:
            inconclusive.append(f"tsan-threads: exit {rc}: {err[-300:]}")
    f["classes"]["process runs under ThreadSanitizer without a report"] = f["evaluations"]
    return [f], inconclusive
