#!/usr/bin/env python3
"""Regenerates /verif/MANIFEST.json from lib/plans.py (so the two never disagree)."""
import json, os, sys
sys.path.insert(0, os.path.dirname(os.path.abspath(__file__)))
import plans

VERIF = os.path.dirname(os.path.dirname(os.path.abspath(__file__)))
props = [json.loads(l) for l in open(os.path.join(VERIF, "properties.jsonl"))]
checks, na = [], []
for p in props:
    pid = p["id"]
    if pid in plans.PLANS:
        pl = plans.PLANS[pid]
        checks.append({
            "property_id": pid,
            "quick_cmd": f"./check {pid} --tier quick",
            "thorough_cmd": f"./check {pid} --tier thorough",
            "evidence_file": f"/verif/evidence/{pid}.json",
            "replay_cmd_template": "./check replay {path}",
            "engine": "mv",
            "level_claimed": {
                "category": "exploration",
                "text": pl.get("level_text", "Generated-input search against an explicit oracle: bounded-exhaustive enumeration of small scopes plus "
                               "proptest-generated structured inputs, executed on every implementation/configuration the property names. "
                               "A pass means no counterexample inside the stated bounds."),
                "design_ref": pl.get("design_ref", "DESIGN.md section 5, " + pid),
            },
            "level_note": pl.get("level_note", "Trusted base: the naive oracles in harness/core/src/oracle.rs, the additive cfg(memchr_verif) hooks, "
                                 "the emulated intrinsics in emu/emu.rs for the NEON/simd128 configurations. Nothing is proved beyond the explored bounds."),
            "technique": pl.get("technique", "property-based testing: bounded-exhaustive enumeration + proptest generation against a naive oracle"),
        })
    else:
        na.append({"property_id": pid, "reason": plans.NOT_YET.get(pid, "check not built yet in this round; see DESIGN.md section 5 for the planned generator and oracle")})
m = {
    "version": 1,
    "setup_cmd": "./check setup",
    "hooks": {
        "guard": "memchr_verif",
        "enable": "RUSTFLAGS=\"--cfg memchr_verif\" (set by ./check for every build of /repo; off by default)",
        "baseline_off_cmd": "cd /repo && cargo test --workspace --no-fail-fast --offline",
        "source_commits": plans.HOOK_COMMITS,
        "add_only": True,
    },
    "engines": [
        {"name": "mv", "path": "/verif/harness", "serves_properties": sorted(plans.PLANS),
         "kind_free_text": "Rust harness (proptest 1.11 + bounded-exhaustive enumerators + naive oracles), driven by the python orchestrator ./check; "
                           "runs natively at three forced CPU levels and against cfg-rewritten copies of the repository with emulated NEON/simd128 intrinsics"},
    ],
    "checks": checks,
    "not_applicable": na,
    "notes": "Exit codes of every check: 0 held, 1 VIOLATION (replay file written), 2 INCONCLUSIVE (tooling failure / watchdog / generator health). "
             "VERIF_SEED and VERIF_TIER are honoured. See DESIGN.md.",
}
json.dump(m, open(os.path.join(VERIF, "MANIFEST.json"), "w"), indent=1)
print("MANIFEST.json:", len(checks), "checks,", len(na), "not claimed")
