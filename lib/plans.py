"""Per-property stage plans."""

TIMEOUT = {"quick": 1500, "thorough": 6 * 3600}

NATIVE = ["N-auto", "N-sse2", "N-fb"]
EMU = ["E-neon", "E-wasm", "E-none"]

DEFAULT_ASSUMPTIONS = [
    "naive reference implementations in harness/core/src/oracle.rs are correct (they never call the crate)",
    "the cfg(memchr_verif) hooks do not change behaviour (additive code only; baseline passes with the guard off)",
    "emulated NEON/simd128 lane semantics in emu/emu.rs match the hardware (cross-checked against Miri's aarch64 intrinsics)",
    "exploration only: absence of a counterexample inside the stated bounds, nothing beyond them",
]


def weight(job):
    w = {"bytes-exh": 10, "bytes-pbt": 6, "bytes-bitmaps": 5}
    return w.get(job["stage"], 5) * (3 if job["config"].startswith("E-") else 1)


def cfgs(quick, thorough=None):
    return lambda tier: (thorough if (tier == "thorough" and thorough is not None) else quick)


def shards(native_q, native_t=None, emu_q=None, emu_t=None):
    def f(tier, cfg):
        if cfg.startswith("E-"):
            q = emu_q if emu_q is not None else native_q
            t = emu_t if emu_t is not None else (native_t or q)
        else:
            q, t = native_q, (native_t or native_q)
        return t if tier == "thorough" else q
    return f


def byte_stages(with_bitmaps=True):
    st = [
        {"name": "bytes-exh", "cmd": "bytes-exh", "configs": cfgs(NATIVE + EMU), "shards": shards(16, 16, 8, 16)},
        {"name": "bytes-pbt", "cmd": "bytes-pbt", "configs": cfgs(NATIVE + EMU), "shards": shards(4, 16, 2, 8)},
    ]
    if with_bitmaps:
        st.append({"name": "bytes-bitmaps", "cmd": "bytes-bitmaps", "configs": cfgs(["N-auto"] + EMU), "shards": shards(8, 16, 2, 4)})
    return st


PLANS = {
    "C01": {
        "rule": "cases = (needle bytes, haystack, placement). Enumerated: every start alignment mod 64 (128 thorough) x every length 0..=L x "
                "every first-match position x {none, single, first+all later match, last+all earlier match} for every implementation "
                "(top-level at three forced CPU levels, arch::all, sse2, avx2, emulated neon/simd128, 4- and 8-lane checked vectors), "
                "all 2^len match bitmaps for short haystacks, plus proptest-generated layouts up to 2 KiB (64 KiB thorough). "
                "Non-trivial: the first match lies beyond the first vector of the implementation under test, or the haystack is non-empty "
                "and shorter than one vector, or the match is on the 2nd/3rd needle. Distinct: enumerated cases are distinct by "
                "construction; generated cases are deduplicated by a hash of (needles, haystack, placement).",
        "stages": byte_stages(),
    },
    "C02": {
        "rule": "as C01 with the END alignment as the enumerated axis (the reverse scan aligns on the end pointer) and rfind/rfind_raw/"
                "memrchr* judged against the naive last position. Non-trivial: the last match lies before the final vector of the scan, "
                "or 0 < len < one vector, or the match is on the 2nd/3rd needle.",
        "stages": byte_stages(),
    },
}

HOOK_COMMITS = [
    "2609971788cad0b69ea509d7a5a9f2c8272e970f",  # declare cfg(memchr_verif)
    "f4f39f0977c51faa2cad7461cad9877f69d94d22",  # src/verif.rs + scaled-down checked vector
    "a3e7318bfab83ebffd6a877fded85cccb882f3af",  # is_available() honours forced CPU level
    "2ae7d5f74b653c3461820286399d965263608bfb",  # step-counter ticks
    "0ea2fbcd5d271926b2a0cf8f6901f26efdff3d8d",  # event markers
]

NOT_YET = {}
