"""Per-property stage plans."""

TIMEOUT = {"quick": 1500, "thorough": 6 * 3600}

NATIVE = ["N-auto", "N-sse2", "N-fb"]
EMU = ["E-neon", "E-wasm", "E-none"]

DEFAULT_ASSUMPTIONS = [
    "naive reference implementations in harness/core/src/oracle.rs are correct (they never call the crate)",
    "the cfg(memchr_verif) hooks do not change behaviour (additive code only; baseline passes with the guard off)",
    "emulated NEON/simd128 lane semantics in emu/emu.rs match the hardware (cross-checked against Miri's aarch64 intrinsics)",
    "exploration only: absence of a counterexample inside the stated bounds, nothing beyond them",
]


def weight(job):
    w = {"bytes-exh": 10, "bytes-pbt": 6, "bytes-bitmaps": 5, "sub-exh": 12, "sub-pbt": 8, "pp-exh": 9, "pp-pbt": 7}
    return w.get(job["stage"], 5) * (3 if job["config"].startswith("E-") else 1)


def cfgs(quick, thorough=None):
    return lambda tier: (thorough if (tier == "thorough" and thorough is not None) else quick)


def shards(native_q, native_t=None, emu_q=None, emu_t=None):
    def f(tier, cfg):
        if cfg.startswith("E-"):
            q = emu_q if emu_q is not None else native_q
            t = emu_t if emu_t is not None else (native_t or q)
        else:
            q, t = native_q, (native_t or native_q)
        return t if tier == "thorough" else q
    return f


def byte_stages(with_bitmaps=True):
    st = [
        {"name": "bytes-exh", "cmd": "bytes-exh", "configs": cfgs(NATIVE + EMU), "shards": shards(16, 16, 8, 16)},
        {"name": "bytes-pbt", "cmd": "bytes-pbt", "configs": cfgs(NATIVE + EMU), "shards": shards(4, 16, 2, 8)},
    ]
    if with_bitmaps:
        st.append({"name": "bytes-bitmaps", "cmd": "bytes-bitmaps", "configs": cfgs(["N-auto"] + EMU), "shards": shards(8, 16, 2, 4)})
    return st


def iter_stages():
    return [
        {"name": "iter-exh", "cmd": "iter-exh", "configs": cfgs(NATIVE + EMU), "shards": shards(4, 8, 4, 8)},
        {"name": "iter-pbt", "cmd": "iter-pbt", "configs": cfgs(NATIVE + EMU), "shards": shards(8, 16, 4, 8), "args": ["--scale", "4"]},
    ]


def sub_stages(short=True, phases=True):
    st = [
        {"name": "sub-exh", "cmd": "sub-exh", "configs": cfgs(NATIVE + EMU), "shards": shards(16, 16, 16, 16)},
        {"name": "sub-pbt", "cmd": "sub-pbt", "configs": cfgs(NATIVE + EMU), "shards": shards(8, 16, 8, 16)},
    ]
    if phases:
        st.append({"name": "sub-phases", "cmd": "sub-phases", "configs": cfgs(NATIVE + EMU), "shards": shards(4, 16, 4, 8)})
    if short:
        st.append({"name": "sub-short", "cmd": "sub-short", "configs": cfgs(NATIVE + EMU), "shards": shards(4, 16, 4, 8)})
    return st


def pp_stages():
    return [
        {"name": "pp-exh", "cmd": "pp-exh", "configs": cfgs(["N-auto"] + EMU), "shards": shards(16, 16, 16, 16)},
        {"name": "pp-pbt", "cmd": "pp-pbt", "configs": cfgs(["N-auto", "E-neon", "E-wasm"]), "shards": shards(16, 16, 8, 16)},
    ]


SUB_GEN = ("Needles: random over alphabets of 1/2/3/4/256 letters, periodic u^k, u^k v, v u^k, u^k with one byte changed, Fibonacci and "
           "Thue-Morse prefixes, single letter, bytes colliding mod 64, common bytes with one rare byte at offset 0 / middle / end / beyond 254, "
           "two equal rare bytes; lengths 0, 1, 2..=32, 33..=64, 65..=600. Haystacks are concatenations of pieces derived from the needle "
           "(occurrence, prefix, suffix, periods, rotation, near miss, Rabin-Karp-hash-equal near miss, change invisible to the 32-bit rolling hash, "
           "run of the rarest byte, foreign run, needle-alphabet noise, >= 50 false prefilter candidates, long quiet prefix), cut to length classes "
           "(< needle, == needle, < 16, < 64, around the vector minimum, up to 4 KiB); dedicated generators for prefilter phases and for the "
           "short-haystack prefilter fallback; bounded-exhaustive: every needle over {a,b} up to 8 (10 thorough) x every haystack up to 12 (16), "
           "over {a,b,c} up to 5 x 8 (6 x 10), the longest cores also embedded at start/middle/end of 16/64/80-byte haystacks. ")

PLANS = {
    "C01": {
        "rule": "cases = (needle bytes, haystack, placement). Enumerated: every start alignment mod 64 (128 thorough) x every length 0..=L x "
                "every first-match position x {none, single, first+all later match, last+all earlier match} for every implementation "
                "(top-level at three forced CPU levels, arch::all, sse2, avx2, emulated neon/simd128, 4- and 8-lane checked vectors), "
                "all 2^len match bitmaps for short haystacks, plus proptest-generated layouts up to 2 KiB (64 KiB thorough). "
                "Non-trivial: the first match lies beyond the first vector of the implementation under test, or the haystack is non-empty "
                "and shorter than one vector, or the match is on the 2nd/3rd needle. Distinct: enumerated cases are distinct by "
                "construction; generated cases are deduplicated by a hash of (needles, haystack, placement).",
        "stages": byte_stages(),
    },
    "C02": {
        "rule": "as C01 with the END alignment as the enumerated axis (the reverse scan aligns on the end pointer) and rfind/rfind_raw/"
                "memrchr* judged against the naive last position. Non-trivial: the last match lies before the final vector of the scan, "
                "or 0 < len < one vector, or the match is on the 2nd/3rd needle.",
        "stages": byte_stages(),
    },
    "C03": {
        "rule": SUB_GEN + "Judged: memmem::find, Finder::find, FinderBuilder(Prefilter::None)::find against the naive leftmost occurrence. "
                "Non-trivial: needle length >= 2 and it occurs, or a window sharing >= half of the needle's prefix precedes the answer. "
                "Distinct by hash of (needle, haystack); enumerated pairs are distinct by construction.",
        "stages": sub_stages(),
    },
    "C04": {
        "rule": SUB_GEN + "Judged: memmem::rfind and FinderRev::rfind against the naive rightmost occurrence (empty needle -> haystack length). "
                "Non-trivial as C03.",
        "stages": sub_stages(short=False),
    },
    "C06": {
        "rule": "cases = (needle set, haystack, placement); for every case the COMPLETE next/next_back call tree is explored through clone() "
                "when there are <= 10 matches (2^(k+2) histories), the whole (front, back) state lattice otherwise; at every node size_hint must "
                "bracket the remaining count, and after exhaustion 4+4 alternating calls must return None. Implementations: Memchr/Memchr2/Memchr3, "
                "memrchr*_iter, iter() of every One/Two/Three. Enumerated: every match bitmap of haystacks up to 10 (12) bytes; generated: lengths "
                "0..=1 KiB (4 KiB), sparse / clustered-inside-one-vector / dense layouts. Non-trivial: >= 2 matches of which two are less than "
                "one vector apart (the two ends meet inside one vector on some explored history). Distinct by hash of (needles, haystack).",
        "stages": iter_stages(),
    },
    "C07": {
        "rule": "count()/count_raw of every One implementation and Memchr::count against the naive count over the C01 enumeration "
                "(alignment x length x {none, single, first+dense, last+dense}), all match bitmaps, generated densities 1/2, 1/8, 1/64, every k-th, "
                "all-but-one; plus count() of a clone taken at EVERY node of the complete next/next_back call tree (partially consumed iterators) "
                "against the model's remaining count. Non-trivial: >= 2 matches in different regions of the scan, or an iterator advanced from "
                "at least one end.",
        "stages": byte_stages() + iter_stages(),
    },
    "C08": {
        "rule": SUB_GEN + "Judged: memmem::find_iter, Finder::find_iter (default and Prefilter::None), memmem::rfind_iter, FinderRev::rfind_iter and "
                "the into_owned() forms, driven to the end + 3 extra calls, against the literal greedy model (leftmost, resume at i+max(len,1); mirror "
                "image from the right; empty needle yields every offset once); size_hint of FindIter must bracket the remaining count before every "
                "step. Non-trivial: needle length >= 2 and it occurs, or a near miss precedes the answer.",
        "stages": sub_stages(short=False),
    },
    "C11": {
        "rule": "cases = (needle, (index1, index2), haystack). Enumerated: every needle of length 2..=5 over {a,b} (2..=4 over {a,b,c}) x every ordered "
                "pair of distinct offsets x every haystack up to 13 (16) bytes on the 4/8-lane checked vectors and the portable prefilter. Generated: "
                "needles up to 300 bytes, offsets up to 254 incl. index1 > index2, haystacks from the finder's minimum upwards with partial pair hits, "
                "full false pair hits, and an occurrence anywhere / at the last offset / inside the final vector / inside the final needle.len() bytes, "
                "on sse2, avx2, neon (emulated), simd128 (emulated), checked vectors, portable. Also the default-pair prefilters over the C03 inputs. "
                "Oracle: needle occurs at e => candidate Some(c), c <= e; candidate c => both pair bytes present at c+index. "
                "Non-trivial: the needle occurs, or an offset >= 128 is used.",
        "stages": pp_stages() + [
            {"name": "sub-pbt", "cmd": "sub-pbt", "configs": cfgs(NATIVE + ["E-neon", "E-wasm"]), "shards": shards(4, 16, 4, 8)},
            {"name": "sub-short", "cmd": "sub-short", "configs": cfgs(NATIVE), "shards": shards(2, 8)},
        ],
    },
    "C12": {
        "rule": SUB_GEN + "Judged: twoway::Finder/FinderRev, rabinkarp::Finder/FinderRev, shiftor::Finder (constructor must return None above 15 bytes), "
                "packed pair find of sse2/avx2/neon/simd128/checked vectors for haystacks >= min_haystack_len (default pair over these inputs; explicit "
                "index pairs in the pp stages), each against naive find/rfind. Non-trivial as C03.",
        "stages": sub_stages(short=False) + pp_stages(),
    },
    "C18": {
        "rule": "Enumerated: lengths 0..=96 (160) x {equal, one flipped bit (0x01/0x80/0x10) at every position, two differences} x 8x8 (16x16) "
                "alignments of the two operands + both operands abutting PROT_NONE pages; all length pairs 0..=40 (64) for is_prefix / is_suffix / "
                "unequal lengths with a difference at every needle position; generated contents up to 600 bytes. Oracles ==, starts_with, ends_with. "
                "Non-trivial: length >= 2 and the difference lies in the last 4-byte word or the 2/1-byte tail; length pairs with needle >= 2.",
        "stages": [
            {"name": "eq-exh", "cmd": "eq-exh", "configs": cfgs(["N-auto", "E-none"]), "shards": shards(16, 16, 8, 16)},
            {"name": "eq-pbt", "cmd": "eq-pbt", "configs": cfgs(["N-auto", "E-none"]), "shards": shards(8, 16, 4, 8), "args": ["--scale", "8"]},
        ],
    },
    "C19": {
        "rule": "Pair::with_indices over ALL 65536 (index1, index2) for needle lengths {0,1,2,3,17,255,256,300}: accepted iff distinct and in range; "
                "every accepted pair handed to every packed-pair finder type, whose pair() must report it. Pair::new/with_ranker over generated "
                "needles (0..=600 bytes: single letter, two letters, all distinct, random, rare byte at front/middle/end/only beyond offset 254) x "
                "8 rankers (default, constant 0, constant 255, identity, reversed, generated table, needle-bytes-most-common, stateful): None iff "
                "len < 2, else two different offsets inside the needle and <= 254, no panic. Non-trivial: needle >= 3 with a non-default ranker, "
                "or an index >= 128.",
        "stages": [
            {"name": "pair-indices", "cmd": "pair-indices", "configs": cfgs(NATIVE + EMU), "shards": shards(8, 8, 4, 8)},
            {"name": "pair-pbt", "cmd": "pair-pbt", "configs": cfgs(NATIVE + EMU), "shards": shards(8, 16, 4, 8), "args": ["--scale", "8"]},
        ],
    },
}

HOOK_COMMITS = [
    "2609971788cad0b69ea509d7a5a9f2c8272e970f",  # declare cfg(memchr_verif)
    "f4f39f0977c51faa2cad7461cad9877f69d94d22",  # src/verif.rs + scaled-down checked vector
    "a3e7318bfab83ebffd6a877fded85cccb882f3af",  # is_available() honours forced CPU level
    "2ae7d5f74b653c3461820286399d965263608bfb",  # step-counter ticks
    "0ea2fbcd5d271926b2a0cf8f6901f26efdff3d8d",  # event markers
]

NOT_YET = {}
