"""Per-property stage plans."""

TIMEOUT = {"quick": 1500, "thorough": 6 * 3600}

NATIVE = ["N-auto", "N-sse2", "N-fb"]
EMU = ["E-neon", "E-wasm", "E-none"]
PLAIN = ["N-plain-auto", "N-plain-sse2", "N-plain-fb", "E-neon-plain", "E-wasm-plain"]

DEFAULT_ASSUMPTIONS = [
    "naive reference implementations in harness/core/src/oracle.rs are correct (they never call the crate)",
    "the cfg(memchr_verif) hooks do not change behaviour (additive code only; baseline passes with the guard off)",
    "emulated NEON/simd128 lane semantics in emu/emu.rs match the hardware (cross-checked against Miri's aarch64 intrinsics)",
    "exploration only: absence of a counterexample inside the stated bounds, nothing beyond them",
]


def weight(job):
    w = {"bytes-exh": 10, "bytes-pbt": 6, "bytes-bitmaps": 5, "sub-exh": 12, "sub-pbt": 8, "pp-exh": 9, "pp-pbt": 7, "steps": 9, "threads": 6, "huge": 20}
    return w.get(job["stage"], 5) * (3 if job["config"].startswith("E-") else 1)


def cfgs(quick, thorough=None):
    return lambda tier: (thorough if (tier == "thorough" and thorough is not None) else quick)


def shards(native_q, native_t=None, emu_q=None, emu_t=None):
    def f(tier, cfg):
        if cfg.startswith("E-") or cfg.startswith("N-plain"):
            q = emu_q if emu_q is not None else native_q
            t = emu_t if emu_t is not None else (native_t or q)
        else:
            q, t = native_q, (native_t or native_q)
        return t if tier == "thorough" else q
    return f


def byte_stages(with_bitmaps=True):
    st = [
        {"name": "bytes-exh", "cmd": "bytes-exh", "configs": cfgs(NATIVE + EMU), "shards": shards(16, 16, 8, 16)},
        {"name": "bytes-pbt", "cmd": "bytes-pbt", "configs": cfgs(NATIVE + EMU + ["E-a64nn"]), "shards": shards(4, 16, 2, 8)},
        {"name": "bytes-sweep", "cmd": "bytes-sweep", "configs": cfgs(NATIVE + EMU), "shards": shards(9, 9, 3, 9)},
    ]
    if with_bitmaps:
        st.append({"name": "bytes-bitmaps", "cmd": "bytes-bitmaps", "configs": cfgs(["N-auto"] + EMU), "shards": shards(8, 16, 2, 4)})
    return st


MIRI_ALL = ["M-x86", "M-avx2", "M-a64", "M-i686", "M-s390x"]


def miri_stage(kinds, quick=40, thorough=3000, targets=None, per_shard=20):
    """Generated cases interpreted by Miri for other targets (real NEON intrinsics on aarch64, 32-bit and big-endian SWAR)."""
    return {"name": "casefile", "kind": "casefile", "configs": cfgs(["N-auto"] + (targets or MIRI_ALL)), "kinds": kinds,
            "count": {"quick": 0, "thorough": 0}, "miri_count": {"quick": quick, "thorough": thorough}, "miri_per_shard": per_shard}


def huge_stage(configs):
    """Haystacks of 4 GiB + 64 KiB (zero pages, a few planted bytes): offsets, counts and accumulated state beyond 32 bits."""
    return {"name": "huge", "cmd": "huge", "configs": cfgs(configs), "shards": 1}


def large_stage(configs, emu=False):
    """Haystacks of 256 KiB - 2 MiB (thorough: up to 33 MiB) at nine start alignments with needle bytes directly outside the slice:
    size-gated code paths (block-skipping loops, page-wise walks, folded lane counters, search-time tables)."""
    return {"name": "large", "cmd": "large", "configs": cfgs(configs + (EMU if emu else [])), "shards": shards(8, 16, 4, 8)}


def iter_stages():
    return [
        {"name": "iter-exh", "cmd": "iter-exh", "configs": cfgs(NATIVE + EMU), "shards": shards(4, 8, 4, 8)},
        {"name": "iter-pbt", "cmd": "iter-pbt", "configs": cfgs(NATIVE + EMU), "shards": shards(8, 16, 4, 8), "args": ["--scale", "4"]},
    ]


def sub_stages(short=True, phases=True):
    st = [
        {"name": "sub-exh", "cmd": "sub-exh", "configs": cfgs(NATIVE + EMU), "shards": shards(16, 16, 16, 16)},
        {"name": "sub-pbt", "cmd": "sub-pbt", "configs": cfgs(NATIVE + EMU), "shards": shards(8, 16, 8, 16)},
    ]
    if phases:
        st.append({"name": "sub-phases", "cmd": "sub-phases", "configs": cfgs(NATIVE + EMU), "shards": shards(4, 16, 4, 8)})
    if short:
        st.append({"name": "sub-short", "cmd": "sub-short", "configs": cfgs(NATIVE + EMU), "shards": shards(4, 16, 4, 8)})
    return st


def pp_stages():
    return [
        {"name": "pp-exh", "cmd": "pp-exh", "configs": cfgs(["N-auto"] + EMU), "shards": shards(16, 16, 16, 16)},
        {"name": "pp-pbt", "cmd": "pp-pbt", "configs": cfgs(["N-auto", "E-neon", "E-wasm"]), "shards": shards(16, 16, 8, 16)},
    ]


SUB_GEN = ("Needles: random over alphabets of 1/2/3/4/256 letters, periodic u^k, u^k v, v u^k, u^k with one byte changed, Fibonacci and "
           "Thue-Morse prefixes, single letter, bytes colliding mod 64, common bytes with one rare byte at offset 0 / middle / end / beyond 254, "
           "two equal rare bytes; lengths 0, 1, 2..=32, 33..=64, 65..=600. Haystacks are concatenations of pieces derived from the needle "
           "(occurrence, prefix, suffix, periods, rotation, near miss, Rabin-Karp-hash-equal near miss, change invisible to the 32-bit rolling hash, "
           "run of the rarest byte, foreign run, needle-alphabet noise, >= 50 false prefilter candidates, long quiet prefix), cut to length classes "
           "(< needle, == needle, < 16, < 64, around the vector minimum, up to 4 KiB); dedicated generators for prefilter phases and for the "
           "short-haystack prefilter fallback; bounded-exhaustive: every needle over {a,b} up to 8 (9 thorough) x every haystack up to 12 (14), "
           "over {a,b,c} up to 5 x 8 (5 x 9), the longest cores also embedded at start/middle/end of 16/64/80-byte haystacks. ")

PLANS = {
    "C01": {
        "technique": 'property-based testing: bounded-exhaustive enumeration (alignment x length x match layout, all match bitmaps) + proptest layouts against a naive oracle; emulated NEON/simd128, forced CPU levels, Miri sample, >4 GiB stage',
        "rule": "cases = (needle bytes, haystack, placement). Enumerated: every start alignment mod 64 (128 thorough) x every length 0..=L x "
                "every first-match position x {none, single, first+all later match, last+all earlier match} for every implementation "
                "(top-level at three forced CPU levels, arch::all, sse2, avx2, emulated neon/simd128, 4- and 8-lane checked vectors), "
                "all 2^len match bitmaps for short haystacks, plus proptest-generated layouts up to 2 KiB (64 KiB thorough). "
                "Non-trivial: the first match lies beyond the first vector of the implementation under test, or the haystack is non-empty "
                "and shorter than one vector, or the match is on the 2nd/3rd needle. Distinct: enumerated cases are distinct by "
                "construction; generated cases are deduplicated by a hash of (needles, haystack, placement). Size-gated paths: stage `large` - haystacks of 256 KiB .. 2 MiB (thorough up to 33 MiB) at 9 start offsets behind a page boundary, needle bytes directly outside the slice, one match at each of 701 positions from the scanned-from end, around the page boundaries, middle and end, or none, or every byte; stage `huge` - 4 GiB + 64 KiB.",
        "stages": byte_stages() + [miri_stage("B", quick=240, thorough=6000, targets=["M-a64", "M-i686", "M-s390x"], per_shard=60), huge_stage(NATIVE), large_stage(NATIVE, emu=True)],
    },
    "C02": {
        "technique": 'property-based testing: bounded-exhaustive enumeration on the END alignment + proptest layouts against a naive oracle; emulated NEON/simd128, forced CPU levels, Miri sample, >4 GiB stage',
        "rule": "as C01 with the END alignment as the enumerated axis (the reverse scan aligns on the end pointer) and rfind/rfind_raw/"
                "memrchr* judged against the naive last position. Non-trivial: the last match lies before the final vector of the scan, "
                "or 0 < len < one vector, or the match is on the 2nd/3rd needle. Size-gated paths: stage `large` - haystacks of 256 KiB .. 2 MiB (thorough up to 33 MiB) at 9 start offsets behind a page boundary, needle bytes directly outside the slice, one match at each of 701 positions from the scanned-from end, around the page boundaries, middle and end, or none, or every byte; stage `huge` - 4 GiB + 64 KiB.",
        "stages": byte_stages() + [miri_stage("B", quick=240, thorough=6000, targets=["M-a64", "M-i686", "M-s390x"], per_shard=60), huge_stage(NATIVE), large_stage(NATIVE, emu=True)],
    },
    "C03": {
        "technique": 'property-based testing: needle-derived structured generation (proptest, shrinking) + exhaustive small-alphabet (needle, haystack) pairs against a naive oracle',
        "rule": SUB_GEN + "Judged: memmem::find, Finder::find, FinderBuilder(Prefilter::None)::find against the naive leftmost occurrence. "
                "Non-trivial: needle length >= 2 and it occurs, or a window sharing >= half of the needle's prefix precedes the answer. "
                "Distinct by hash of (needle, haystack); enumerated pairs are distinct by construction. Size-gated paths: stage `large` - needles of 1..300 bytes planted at 0 / 1 / middle / very end of 1-2 MiB haystacks (thorough up to 33 MiB) carrying partial needles; stage `huge` - 4 GiB + 64 KiB.",
        "stages": sub_stages() + [huge_stage(["N-auto", "N-fb"]), large_stage(NATIVE)],
    },
    "C04": {
        "technique": 'property-based testing: needle-derived structured generation (proptest, shrinking) + exhaustive small-alphabet pairs against a naive oracle (reverse)',
        "rule": SUB_GEN + "Judged: memmem::rfind and FinderRev::rfind against the naive rightmost occurrence (empty needle -> haystack length). "
                "Non-trivial as C03. Size-gated paths: stage `large` - needles of 1..300 bytes planted at 0 / 1 / middle / very end of 1-2 MiB haystacks (thorough up to 33 MiB) carrying partial needles; stage `huge` - 4 GiB + 64 KiB.",
        "stages": sub_stages(short=False) + [huge_stage(["N-auto"]), large_stage(NATIVE)],
    },
    "C06": {
        "technique": 'stateful property-based testing: complete next/next_back call-tree exploration per generated haystack against a model deque, size_hint validity at every node',
        "rule": "cases = (needle set, haystack, placement); for every case the COMPLETE next/next_back call tree is explored through clone() "
                "when there are <= 10 matches (2^(k+2) histories), the whole (front, back) state lattice otherwise; at every node size_hint must "
                "bracket the remaining count, and after exhaustion 4+4 alternating calls must return None. Implementations: Memchr/Memchr2/Memchr3, "
                "memrchr*_iter, iter() of every One/Two/Three. Enumerated: every match bitmap of haystacks up to 10 (12) bytes; generated: lengths "
                "0..=1 KiB (4 KiB), sparse / clustered-inside-one-vector / dense layouts. Non-trivial: >= 2 matches of which two are less than "
                "one vector apart (the two ends meet inside one vector on some explored history). Distinct by hash of (needles, haystack). Size-gated paths: stage `large` - haystacks of 256 KiB .. 2 MiB (thorough up to 33 MiB) at 9 start offsets behind a page boundary, needle bytes directly outside the slice, one match at each of 701 positions from the scanned-from end, around the page boundaries, middle and end, or none, or every byte; stage `huge` - 4 GiB + 64 KiB.",
        "stages": iter_stages() + [huge_stage(NATIVE), large_stage(NATIVE, emu=True), miri_stage("I", quick=120, thorough=4000, targets=["M-a64", "M-i686"], per_shard=60)],
    },
    "C07": {
        "technique": 'property-based testing: exhaustive enumeration + generated densities against a naive count; count() of clones at every node of the iterator call tree',
        "rule": "count()/count_raw of every One implementation and Memchr::count against the naive count over the C01 enumeration "
                "(alignment x length x {none, single, first+dense, last+dense}), all match bitmaps, generated densities 1/2, 1/8, 1/64, every k-th, "
                "all-but-one; plus count() of a clone taken at EVERY node of the complete next/next_back call tree (partially consumed iterators) "
                "against the model's remaining count. Non-trivial: >= 2 matches in different regions of the scan, or an iterator advanced from "
                "at least one end. Size-gated paths: stage `large` - haystacks of 256 KiB .. 2 MiB (thorough up to 33 MiB) at 9 start offsets behind a page boundary, needle bytes directly outside the slice, one match at each of 701 positions from the scanned-from end, around the page boundaries, middle and end, or none, or every byte; stage `huge` - 4 GiB + 64 KiB.",
        "stages": byte_stages() + iter_stages() + [huge_stage(NATIVE), large_stage(NATIVE, emu=True), miri_stage("B", quick=120, thorough=4000, targets=["M-a64", "M-i686", "M-s390x"], per_shard=60)],
    },
    "C08": {
        "technique": 'model-based property testing: literal greedy non-overlapping model vs complete iterator runs, size_hint validity before every step',
        "rule": SUB_GEN + "Judged: memmem::find_iter, Finder::find_iter (default and Prefilter::None), memmem::rfind_iter, FinderRev::rfind_iter and "
                "the into_owned() forms, driven to the end + 3 extra calls, against the literal greedy model (leftmost, resume at i+max(len,1); mirror "
                "image from the right; empty needle yields every offset once); size_hint of FindIter must bracket the remaining count before every "
                "step. Non-trivial: needle length >= 2 and it occurs, or a near miss precedes the answer. Size-gated paths: stage `large` - needles of 1..300 bytes planted at 0 / 1 / middle / very end of 1-2 MiB haystacks (thorough up to 33 MiB) carrying partial needles; stage `huge` - 4 GiB + 64 KiB.",
        "stages": sub_stages(short=False) + [huge_stage(["N-auto"]), large_stage(NATIVE)],
    },
    "C11": {
        "technique": 'property-based testing with a validity predicate (candidate <= first occurrence, pair bytes present): exhaustive small spaces + generated large ones',
        "rule": "cases = (needle, (index1, index2), haystack). Enumerated: every needle of length 2..=5 over {a,b} (2..=4 over {a,b,c}) x every ordered "
                "pair of distinct offsets x every haystack up to 13 (16) bytes on the 4/8-lane checked vectors and the portable prefilter. Generated: "
                "needles up to 300 bytes, offsets up to 254 incl. index1 > index2, haystacks from the finder's minimum upwards with partial pair hits, "
                "full false pair hits, and an occurrence anywhere / at the last offset / inside the final vector / inside the final needle.len() bytes, "
                "on sse2, avx2, neon (emulated), simd128 (emulated), checked vectors, portable. Also the default-pair prefilters over the C03 inputs. "
                "Oracle: needle occurs at e => candidate Some(c), c <= e; candidate c => both pair bytes present at c+index. "
                "Non-trivial: the needle occurs, or an offset >= 128 is used.",
        "stages": pp_stages() + [
            {"name": "sub-pbt", "cmd": "sub-pbt", "configs": cfgs(NATIVE + ["E-neon", "E-wasm"]), "shards": shards(4, 16, 4, 8)},
            {"name": "sub-short", "cmd": "sub-short", "configs": cfgs(NATIVE), "shards": shards(2, 8)},
        ],
    },
    "C12": {
        "technique": 'property-based testing: bounded-exhaustive + structured generation against a naive oracle for each public building block',
        "rule": SUB_GEN + "Judged: twoway::Finder/FinderRev, rabinkarp::Finder/FinderRev, shiftor::Finder (constructor must return None above 15 bytes), "
                "packed pair find of sse2/avx2/neon/simd128/checked vectors for haystacks >= min_haystack_len (default pair over these inputs; explicit "
                "index pairs in the pp stages), each against naive find/rfind. Non-trivial as C03.",
        "stages": sub_stages(short=False) + pp_stages(),
    },
    "C05": {
        "technique": 'generated inputs against memory-access oracles: PROT_NONE guard pages + crash journal, bounds/alignment-checked scaled-down and emulated vector loads, builds without debug assertions, Miri on 5 targets, libFuzzer + ASan (thorough)',
        "rule": "Every generator of C01-C12/C18 re-run with memory access as the only thing judged: (1) every haystack/needle is copied into an "
                "mmap arena so that it ends exactly at, or starts exactly after, a PROT_NONE page (and at every alignment in between); a read past "
                "the slice faults and the SIGSEGV handler attributes it to the journaled case; (2) the crate's generic vector algorithms run on "
                "4/8-lane checked vectors and on emulated NEON/simd128 vectors whose every load is checked against the registered haystack region "
                "and whose aligned loads are checked for alignment - exhaustively over alignment x length x match layout, all match bitmaps, all "
                "small needle/pair/haystack combinations incl. haystacks below min_haystack_len (documented panic caught), and with FOREIGN needles handed to "
                "the low-level Two-Way / Rabin-Karp / packed-pair finders at search time (longer than the haystack with the haystack as prefix, same length with another "
                "last byte, doubled, shortened, the haystack's tail). "
                "(3) the same passes in builds WITHOUT debug assertions and overflow checks (native at three levels, emulated NEON/simd128), where no "
                "debug_assert! can pre-empt a bad load; (4) Miri for five targets over generated case files, every haystack placed at the very end (or start) of an exactly sized allocation so that Miri's allocation bounds are the oracle; (5, thorough) libFuzzer + ASan. "
                "Non-trivial: the call performs at least one multi-byte load with an unaligned end or a placement against a guard page.",
        "stages": [
            {"name": "bytes-exh", "cmd": "bytes-exh", "configs": cfgs(NATIVE + EMU + PLAIN), "shards": shards(16, 16, 8, 16)},
            {"name": "bytes-bitmaps", "cmd": "bytes-bitmaps", "configs": cfgs(["N-auto", "N-plain-auto", "E-neon-plain", "E-wasm-plain"] + EMU), "shards": shards(8, 16, 2, 4)},
            {"name": "bytes-pbt", "cmd": "bytes-pbt", "configs": cfgs(NATIVE + EMU + PLAIN), "shards": shards(4, 16, 2, 8)},
            {"name": "iter-pbt", "cmd": "iter-pbt", "configs": cfgs(NATIVE + EMU), "shards": shards(4, 8, 2, 4)},
            {"name": "sub-exh", "cmd": "sub-exh", "configs": cfgs(["N-auto", "N-fb"] + EMU), "shards": shards(16, 16, 16, 16)},
            {"name": "sub-pbt", "cmd": "sub-pbt", "configs": cfgs(NATIVE + EMU + PLAIN), "shards": shards(8, 16, 4, 8)},
            {"name": "sub-phases", "cmd": "sub-phases", "configs": cfgs(NATIVE), "shards": shards(2, 8)},
            {"name": "sub-short", "cmd": "sub-short", "configs": cfgs(NATIVE + ["E-neon", "E-wasm"]), "shards": shards(2, 8, 2, 4)},
            {"name": "pp-exh", "cmd": "pp-exh", "configs": cfgs(["N-auto"] + EMU), "shards": shards(16, 16, 16, 16)},
            {"name": "pp-pbt", "cmd": "pp-pbt", "configs": cfgs(["N-auto", "E-neon", "E-wasm", "N-plain-auto", "E-neon-plain", "E-wasm-plain"]), "shards": shards(16, 16, 8, 16)},
            {"name": "eq-exh", "cmd": "eq-exh", "configs": cfgs(["N-auto", "N-plain-auto"]), "shards": shards(8, 16, 8, 16)},
            {"name": "eq-pbt", "cmd": "eq-pbt", "configs": cfgs(["N-auto"]), "shards": shards(4, 8), "args": ["--scale", "4"]},
            miri_stage("BISPE", quick=60, thorough=6000),
            dict(miri_stage("B", quick=160, thorough=8000, targets=["M-x86", "M-avx2", "M-a64"], per_shard=40), name="casefile-bytes"),
            {"name": "fuzz", "kind": "fuzz", "configs": cfgs([]), "targets": ["fz_bytes", "fz_substr"], "runs": {"quick": 0, "thorough": 20000000},
             "workers": 4, "thorough_only": True},
        ],
    },
    "C09": {
        "rule": "One natively generated case file (byte search, byte iterators with generated next/next_back/count call patterns, substring search incl. "
                "every building block and complete iterator sequences, packed pair with explicit offsets on both sides of min_haystack_len, is_equal/"
                "is_prefix/is_suffix, finder histories, and long periodic haystacks of 2-20 KB with the needle every 1..64 bytes) is executed by `mvexec` built as: native at three forced CPU levels (AVX2 / SSE2 only / neither), "
                "--no-default-features, alloc only, -C target-feature=+avx2, plain release (no debug assertions), emulated NEON / simd128 / no-SIMD wiring / aarch64 without the neon feature, "
                "and interpreted by Miri for x86_64 (SSE2), x86_64+avx2, aarch64 (real NEON intrinsics), i686 and big-endian s390x (SWAR fallback). "
                "The judge puts every observation into an equivalence class (first position, last position, count, iterator sequence, leftmost / rightmost "
                "occurrence, find_iter / rfind_iter sequence, packed-pair find, ...) and requires ALL implementations in ALL configurations to report the "
                "same value per class - the property is about agreement, so answers that are identically wrong everywhere are C01-C08's business, not "
                "C09's; the naive oracle is only used to word which side of a disagreement is wrong. Non-trivial: a case executed in >= 2 configurations "
                "with a match (haystack >= 16 bytes).",
        "stages": [
            {"name": "casefile", "kind": "casefile", "configs": cfgs(NATIVE + ["X-nostd", "X-alloc", "X-avx2ct", "X-plain"] + EMU + ["E-a64nn"] + ["M-x86", "M-avx2", "M-a64", "M-i686", "M-s390x"]),
             "count": {"quick": 300000, "thorough": 4000000}, "miri_count": {"quick": 40, "thorough": 4000}, "miri_per_shard": 20, "fast_shards": 16},
        ],
        "assumptions": DEFAULT_ASSUMPTIONS + ["Miri's implementation of the x86/aarch64 vendor intrinsics is faithful", "compile-time -sse2 cannot be built for this target: 'CPU without SSE2' exists only as the forced level"],
        "technique": "differential testing: generated case files executed in 16 build/CPU/target configurations, record-for-record comparison",
    },
    "C10": {
        "technique": 'metamorphic / differential property testing: 16 builder configurations (8 rankers x 2 prefilter settings) must agree on generated inputs',
        "rule": SUB_GEN + "Each generated (needle, haystack) is searched by finders built with Prefilter::None and Prefilter::Auto x 8 rankers (default, constant 0, "
                "constant 255, identity, reversed, generated table, needle-bytes-most-common, stateful): find and the complete find_iter sequence must be identical "
                "in all 16 configurations (the naive oracle only names the wrong side of a disagreement). The phase generator aims the false-candidate stretch at the pair the selected "
                "ranker picks, so the adaptive prefilter goes inert for that configuration. Non-trivial: at least two rankers select different pairs and the needle occurs.",
        "stages": [
            {"name": "c10", "cmd": "c10", "configs": cfgs(NATIVE + EMU), "shards": shards(16, 16, 8, 8), "args": ["--scale", "5"]},
            {"name": "c10-phases", "cmd": "c10-phases", "configs": cfgs(NATIVE + EMU), "shards": shards(16, 16, 8, 8), "args": ["--scale", "5"]},
        ],
    },
    "C13": {
        "technique": 'property-based testing of a cost bound: fixed and proptest-generated adversarial families measured with a deterministic step counter (absolute bound + x4 / x16 scaling relations + cost-per-byte growth)',
        "rule": "The hook's step counter is read around (build finder + operation) for find, rfind, complete find_iter / rfind_iter traversals and the one-shot "
                "functions on 12 adversarial families (a^(m-1)b in (a^(m-1)c)^r and in a^n, a^m in (a^(m-1)b)^r, needles > 255 bytes over two common bytes, "
                "periodic needles in near-periods, pair bytes recurring everywhere, Fibonacci, Thue-Morse, quiet prefix then dense false candidates, empty "
                "needle, (ab)^k c in (ab)^r, random binary) at n in {256..256 Ki (1 Mi scaled)}, m in 2..=1024 (4096 scaled), plus every binary needle <= 7 x "
                "haystack <= 12; and on GENERATED families: a structured needle (13 kinds, 65..=256 bytes) and a haystack tile of needle-derived pieces, both "
                "instantiated at scales 1, 4, 16 (64) with complete find_iter / rfind_iter traversals. Oracles: steps <= 96*(n+m)+8192; steps(4n,4m) <= 6*steps(n,m) and steps(16n,16m) <= 24*steps(n,m) for needles >= 65 bytes on "
                "families traversed completely (linear gives 4 resp. 16, a term in n*m gives 16 resp. 256); for generated families the cost per byte must "
                "not keep growing: >= 1.8x over each of two consecutive x4 scale steps ending at >= 12 steps per byte is a violation (single expensive instances are not: the constant depends on the instance). Non-trivial: n >= 4096.",
        "stages": [
            {"name": "steps", "cmd": "steps", "configs": cfgs(NATIVE), "shards": shards(16, 16), "args": ["--scale", "12"]},
            {"name": "steps-exh", "cmd": "steps-exh", "configs": cfgs(NATIVE), "shards": shards(4, 8)},
            {"name": "steps-gen", "cmd": "steps-gen", "configs": cfgs(NATIVE), "shards": shards(16, 16), "args": ["--scale", "12"]},
        ],
        "assumptions": DEFAULT_ASSUMPTIONS + ["the step counter only sees loops that carry a tick (all loops of the substring search code do); constant-factor slowdowns are by definition not violations"],
    },
    "C14": {
        "technique": 'property-based testing / fuzzing for absence of panics: all generators under catch_unwind and a crash journal; exactness of the documented panic around min_haystack_len',
        "rule": "Union of the generators of C01-C12, C18, C19 executed in builds with debug assertions and overflow checks (native at three CPU levels, "
                "emulated NEON/simd128/no-SIMD): any unwind from a top-level function, iterator, finder method or in-domain low-level searcher is a violation, "
                "as is SIGABRT/SIGILL/SIGSEGV (crash journal). Documented panic: for every packed-pair finder type and generated (needle, pair), haystack "
                "lengths on both sides of min_haystack_len (min-2 .. min+1 for every vector width, and 0): find and find_prefilter must panic iff len < min. "
                "Values are not judged here. Non-trivial: haystack of at least one vector, needle >= 2 with haystack >= 16, or a length within 2 of the boundary. Stage `large`: all of the above operations on 256 KiB .. 2 MiB haystacks.",
        "stages": [
            {"name": "bytes-exh", "cmd": "bytes-exh", "configs": cfgs(NATIVE + EMU), "shards": shards(16, 16, 8, 16)},
            {"name": "bytes-pbt", "cmd": "bytes-pbt", "configs": cfgs(NATIVE + EMU), "shards": shards(4, 16, 2, 8)},
            {"name": "iter-pbt", "cmd": "iter-pbt", "configs": cfgs(NATIVE + EMU), "shards": shards(4, 8, 2, 4)},
            {"name": "sub-exh", "cmd": "sub-exh", "configs": cfgs(["N-auto", "N-fb"] + EMU), "shards": shards(16, 16, 16, 16)},
            {"name": "sub-pbt", "cmd": "sub-pbt", "configs": cfgs(NATIVE + EMU), "shards": shards(8, 16, 4, 8)},
            {"name": "sub-phases", "cmd": "sub-phases", "configs": cfgs(NATIVE + EMU), "shards": shards(2, 8, 2, 4)},
            {"name": "sub-short", "cmd": "sub-short", "configs": cfgs(NATIVE + EMU), "shards": shards(2, 8, 2, 4)},
            {"name": "pp-exh", "cmd": "pp-exh", "configs": cfgs(["N-auto"] + EMU), "shards": shards(16, 16, 16, 16)},
            {"name": "pp-pbt", "cmd": "pp-pbt", "configs": cfgs(["N-auto", "E-neon", "E-wasm"]), "shards": shards(16, 16, 8, 16)},
            {"name": "eq-pbt", "cmd": "eq-pbt", "configs": cfgs(["N-auto"]), "shards": shards(2, 8)},
            {"name": "pair-pbt", "cmd": "pair-pbt", "configs": cfgs(["N-auto"]), "shards": shards(2, 8)},
            {"name": "c10", "cmd": "c10", "configs": cfgs(["N-auto", "N-fb"]), "shards": shards(4, 8)},
            {"name": "history", "cmd": "history", "configs": cfgs(["N-auto"]), "shards": shards(4, 8)},
            huge_stage(["N-auto", "N-fb"]), large_stage(NATIVE),
        ],
    },
    "C15": {
        "technique": 'generated thread programs in fresh processes compared with the sequential-after reference; schedule exploration under Miri seeds; ThreadSanitizer (thorough)',
        "rule": "proptest generates thread programs (2..=16 threads (32 thorough), 1..=6 operations each over the seven dispatched memchr routines, a shared "
                "Finder / FinderRev, complete find_iter traversals, memchr iterators advanced on one thread and handed to another through a channel, and the "
                "one-shot memmem::find / rfind / find_iter with a per-call needle length on private < 64-byte haystacks with the needle planted at an offset >= 1 "
                "(flavor 'one-shot storm': only such calls); every thread repeats each operation 1 / 20 / 400 times so that calls overlap in time natively; each "
                "program runs in a FRESH mvexec process so the dispatch cache is uninitialised, all threads are released by a barrier and race to install the "
                "implementation; every observed result is compared with what the same call returns when executed on its own after all threads have finished "
                "(the property's 'what it would return in isolation'). Three forced CPU levels; Miri-owned schedules for a sample. "
                "A second storm flavor does the same on haystacks of 64 bytes and more; a third one lets all threads hit the shared, so far unused Finder / FinderRev at once (find, rfind, find_iter and searches of 0..40-byte prefixes). Non-trivial: >= 2 threads whose first operation is the same dispatched routine, or >= 2 threads in one-shot memmem::find with needles of different lengths.",
        "stages": [
            {"name": "threads", "cmd": "threads", "configs": cfgs(NATIVE), "shards": shards(16, 16), "needs_mvexec": True, "args": ["--scale", "16"]},
            {"name": "miri-schedules", "kind": "miri-threads", "configs": cfgs(["N-auto", "M-x86", "M-avx2"]),
             "programs": {"quick": 14, "thorough": 120}, "seeds": {"quick": 3, "thorough": 25}},
            {"name": "tsan-threads", "kind": "tsan-threads", "configs": cfgs(["N-auto", "T-tsan"]), "thorough_only": True,
             "programs": {"quick": 0, "thorough": 200}, "repeats": {"quick": 0, "thorough": 10}},
        ],
        "assumptions": DEFAULT_ASSUMPTIONS + ["native interleavings are whatever the OS scheduler produces; only the Miri stage owns its schedule; nothing is exhaustive over schedules"],
    },
    "C16": {
        "technique": 'model-based stateful property testing: generated operation histories (reuse, clone, as_ref, into_owned, freed needle buffer) against fresh-finder references',
        "rule": "Model-based histories: op lists (<= 40 before, <= 30 after the needle buffer is overwritten with garbage and freed) over Find/Rfind on any of 3-7 "
                "needle-derived haystacks (incl. one that exhausts the prefilter), StartIter/StartRevIter, Step, CloneFinder, AsRef, IntoOwned, CloneIter, "
                "IntoOwnedIter, CheckNeedle, CloneDrop (clone an owned finder / iterator, drop the source, keep using the clone), and Buf (the haystack, cut / padded to a fixed length, is copied into ONE reused buffer that is then searched with find / "
                "rfind / find_iter / rfind_iter: same address and length, different contents). Reference: a FRESH finder's answer for that haystack (history independence), a fresh uninterrupted iterator's sequence for clones and "
                "owned conversions (they must continue at the same index); needle() equals the construction needle. The whole op vector shrinks as one value. "
                "Non-trivial: >= 3 searches over >= 3 haystacks on one finder, a clone/into_owned taken from a partially consumed iterator, or >= 2 searches of the reused buffer.",
        "stages": [
            {"name": "history", "cmd": "history", "configs": cfgs(NATIVE + EMU), "shards": shards(16, 16, 8, 8), "args": ["--scale", "6"]},
            miri_stage("H", quick=40, thorough=2000, targets=["M-x86"]),
        ],
    },
    "C17": {
        "technique": 'property-based testing with a counting global allocator armed around every generated API call (with positive control)',
        "rule": "A counting #[global_allocator] is armed around each API call: Finder::new, FinderRev::new, FinderBuilder (Prefilter::None, build_reverse, custom "
                "ranker), find, rfind, memmem::find/rfind, complete find_iter/rfind_iter traversals (top-level and finder), as_ref+clone, memchr/2/3, "
                "memrchr/2/3 and their forward and reverse iterators (next, next_back, count, size_hint); find / rfind / both iterators / as_ref / needle on finders that OWN "
                "their needle (into_owned itself performed with the probe disarmed); the arch-level One/Two/Three searchers of the configuration (arch::all, sse2, avx2, "
                "neon, simd128: find, rfind, count, iterators); construction and search of twoway, rabinkarp and the portable packed-pair prefilter - about 60 calls per generated (needle, haystack) from the C03 / prefilter-phase / "
                "short-fallback generators, plus the very first search of the fresh process (CPU detection). The count must stay 0. Positive control per run: "
                "into_owned and shiftor::Finder::new must register >= 1 allocation, otherwise the run is inconclusive. Non-trivial: needle >= 2 and haystack >= 16. The `large` stage repeats the probe on 1-2 MiB haystacks (needles 1..300 bytes, Finder, Prefilter::None, one-shot, twoway::Finder, iterators, reverse).",
        "stages": [
            {"name": "alloc", "cmd": "alloc", "configs": cfgs(NATIVE + EMU), "shards": shards(16, 16, 8, 8), "args": ["--scale", "5"]},
            large_stage(NATIVE),
        ],
    },
    "C18": {
        "technique": 'bounded-exhaustive enumeration (lengths x difference positions x operand alignments, guard pages) + proptest against slice comparison',
        "rule": "Enumerated: lengths 0..=96 (160) x {equal, one flipped bit (0x01/0x80/0x10) at every position, two differences} x 8x8 (16x16) "
                "alignments of the two operands + both operands abutting PROT_NONE pages; all length pairs 0..=40 (64) for is_prefix / is_suffix / "
                "unequal lengths with a difference at every needle position; generated contents up to 600 bytes. Oracles ==, starts_with, ends_with. "
                "Non-trivial: length >= 2 and the difference lies in the last 4-byte word or the 2/1-byte tail; length pairs with needle >= 2.",
        "stages": [
            {"name": "eq-exh", "cmd": "eq-exh", "configs": cfgs(["N-auto", "E-none"]), "shards": shards(16, 16, 8, 16)},
            {"name": "eq-pbt", "cmd": "eq-pbt", "configs": cfgs(["N-auto", "E-none"]), "shards": shards(8, 16, 4, 8), "args": ["--scale", "8"]},
        ],
    },
    "C19": {
        "technique": 'exhaustive enumeration of all 65536 index pairs + generated needles x rankers against the statement as a predicate',
        "rule": "Pair::with_indices over ALL 65536 (index1, index2) for needle lengths {0,1,2,3,17,255,256,300}: accepted iff distinct and in range; "
                "every accepted pair handed to every packed-pair finder type, whose pair() must report it. Pair::new/with_ranker over generated "
                "needles (0..=600 bytes: single letter, two letters, all distinct, random, rare byte at front/middle/end/only beyond offset 254) x "
                "8 rankers (default, constant 0, constant 255, identity, reversed, generated table, needle-bytes-most-common, stateful): None iff "
                "len < 2, else two different offsets inside the needle and <= 254, no panic. Non-trivial: needle >= 3 with a non-default ranker, "
                "or an index >= 128.",
        "stages": [
            {"name": "pair-indices", "cmd": "pair-indices", "configs": cfgs(NATIVE + EMU), "shards": shards(8, 8, 4, 8)},
            {"name": "pair-pbt", "cmd": "pair-pbt", "configs": cfgs(NATIVE + EMU), "shards": shards(8, 16, 4, 8), "args": ["--scale", "8"]},
        ],
    },
}

HOOK_COMMITS = [
    "2609971788cad0b69ea509d7a5a9f2c8272e970f",  # declare cfg(memchr_verif)
    "f4f39f0977c51faa2cad7461cad9877f69d94d22",  # src/verif.rs + scaled-down checked vector
    "a3e7318bfab83ebffd6a877fded85cccb882f3af",  # is_available() honours forced CPU level
    "2ae7d5f74b653c3461820286399d965263608bfb",  # step-counter ticks
    "0ea2fbcd5d271926b2a0cf8f6901f26efdff3d8d",  # event markers
    "9963bdaa7dd572c7718e2d7ab82a45b743e59a4b",  # one tick per dispatched memchr-family call
]

NOT_YET = {}
