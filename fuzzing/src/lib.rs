//! placeholder parent crate for cargo-fuzz
