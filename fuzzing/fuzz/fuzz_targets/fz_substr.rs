#![no_main]
//! Coverage-guided differential target for substring search: top-level
//! functions, finders, iterators and every building block vs the naive oracle,
//! on exact-size heap copies.
use arbitrary::Unstructured;
use libfuzzer_sys::fuzz_target;
use mvcore::{oracle, subs};

fuzz_target!(|data: &[u8]| {
    let mut u = Unstructured::new(data);
    let mode = u.arbitrary::<u8>().unwrap_or(0);
    let nlen = match mode % 4 {
        0 => (u.arbitrary::<u8>().unwrap_or(0) % 5) as usize,
        1 => (u.arbitrary::<u8>().unwrap_or(0) % 33) as usize,
        2 => 33 + (u.arbitrary::<u8>().unwrap_or(0) % 40) as usize,
        _ => u.arbitrary::<u8>().unwrap_or(0) as usize,
    };
    let period = 1 + (u.arbitrary::<u8>().unwrap_or(0) % 9) as usize;
    let periodic = mode & 4 != 0;
    let plant = mode & 8 != 0;
    let mut needle: Vec<u8> = Vec::with_capacity(nlen);
    for i in 0..nlen {
        if periodic && i >= period {
            let b = needle[i - period];
            needle.push(b);
        } else {
            needle.push(u.arbitrary::<u8>().unwrap_or(b'a'));
        }
    }
    let at = u.arbitrary::<u16>().unwrap_or(0) as usize;
    let mut hay: Vec<u8> = u.take_rest().to_vec();
    if plant && hay.len() >= needle.len() && !needle.is_empty() {
        let p = at % (hay.len() - needle.len() + 1);
        hay[p..p + needle.len()].copy_from_slice(&needle);
    }
    let needle: Box<[u8]> = needle.into_boxed_slice();
    let hay: Box<[u8]> = hay.into_boxed_slice();
    let e = oracle::naive_find(&hay, &needle);
    let r = oracle::naive_rfind(&hay, &needle);
    let set = subs::SubSet::new(&needle);
    set.fwd_all(&hay, true, true, |imp, got| {
        assert_eq!(got, e, "{} needle {:?} hay {:?}", subs::sub_name(imp), &needle, &hay);
    });
    set.rev_all(&hay, true, true, |imp, got| {
        assert_eq!(got, r, "{} needle {:?} hay {:?}", subs::sub_name(imp), &needle, &hay);
    });
    let ef = oracle::greedy_fwd(&hay, &needle);
    let er = oracle::greedy_rev(&hay, &needle);
    let run = subs::drive(set.finder.find_iter(&hay), hay.len() + 8, ef.len(), true);
    assert!(!run.runaway && !run.unfused && run.hint_fail.is_none(), "find_iter misbehaves: needle {:?} hay {:?}", &needle, &hay);
    assert_eq!(run.items, ef, "find_iter needle {:?} hay {:?}", &needle, &hay);
    let run = subs::drive(set.rev.rfind_iter(&hay), hay.len() + 8, er.len(), false);
    assert!(!run.runaway && !run.unfused);
    assert_eq!(run.items, er, "rfind_iter needle {:?} hay {:?}", &needle, &hay);
    if needle.len() >= 2 {
        for (imp, pp) in set.pps.iter() {
            if hay.len() >= pp.min_haystack_len() {
                let c = pp.find_prefilter(&hay);
                if let Some(e) = e {
                    assert!(c.map_or(false, |c| c <= e), "{} candidate {:?} first {:?} needle {:?} hay {:?}", subs::sub_name(*imp), c, e, &needle, &hay);
                }
            }
        }
    }
});
