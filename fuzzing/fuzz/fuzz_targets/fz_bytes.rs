#![no_main]
//! Coverage-guided differential target for the byte-search family: every
//! implementation available in this build vs the naive oracle, on exact-size
//! heap copies (AddressSanitizer red zones catch reads outside the slice).
use arbitrary::Unstructured;
use libfuzzer_sys::fuzz_target;
use mvcore::{bytes, oracle};

fuzz_target!(|data: &[u8]| {
    let mut u = Unstructured::new(data);
    let arity = 1 + (u.arbitrary::<u8>().unwrap_or(0) % 3) as usize;
    let mut needles = Vec::new();
    for _ in 0..arity {
        needles.push(u.arbitrary::<u8>().unwrap_or(b'a'));
    }
    let off = (u.arbitrary::<u8>().unwrap_or(0) % 64) as usize;
    let npat = (u.arbitrary::<u8>().unwrap_or(0) % 12) as usize;
    let mut pattern = Vec::new();
    for _ in 0..npat {
        pattern.push(u.arbitrary::<u8>().unwrap_or(0) % 3);
    }
    let rest = u.take_rest();
    // the haystack is an exact-size allocation starting `off` bytes into... no: exact-size box,
    // plus a second variant as the tail of a box so that the start alignment varies
    let exact: Box<[u8]> = rest.to_vec().into_boxed_slice();
    let mut padded = vec![needles[0]; off];
    padded.extend_from_slice(rest);
    let padded: Box<[u8]> = padded.into_boxed_slice();
    for hay in [&exact[..], &padded[off.min(padded.len())..]] {
        let pos = oracle::naive_pos(&needles, hay);
        let rpos = oracle::naive_rpos(&needles, hay);
        let cnt = oracle::naive_count(&needles, hay);
        let matches = oracle::naive_positions(&needles, hay);
        for imp in 0..bytes::N_IMPLS as u8 {
            let s = match bytes::make(imp, &needles) {
                Some(s) => s,
                None => continue,
            };
            assert_eq!(s.find(hay), pos, "find impl {} needles {:?} hay {:?}", imp, needles, hay);
            assert_eq!(s.rfind(hay), rpos, "rfind impl {} needles {:?} hay {:?}", imp, needles, hay);
            if arity == 1 {
                if let Some(c) = s.count(hay) {
                    assert_eq!(c, cnt, "count impl {} needles {:?} hay {:?}", imp, needles, hay);
                }
            }
            if bytes::has_iter(imp) {
                let mut out = Vec::new();
                s.iter_run(hay, &pattern, &mut out);
                let (mut lo, mut hi) = (0usize, matches.len());
                let mut exp: Vec<i64> = Vec::new();
                for &p in &pattern {
                    match p {
                        0 => {
                            if lo < hi {
                                exp.push(matches[lo] as i64);
                                lo += 1;
                            } else {
                                exp.push(-1);
                            }
                        }
                        1 => {
                            if lo < hi {
                                hi -= 1;
                                exp.push(matches[hi] as i64);
                            } else {
                                exp.push(-1);
                            }
                        }
                        _ => exp.push((hi - lo) as i64),
                    }
                }
                assert_eq!(out, exp, "iter impl {} pattern {:?} needles {:?} hay {:?}", imp, pattern, needles, hay);
            }
        }
    }
});
